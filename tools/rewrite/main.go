// Command rewrite produces, for the CURRENT sources of the module under
// check, a transformed copy of every non-test file that uses goroutines,
// channels, select, context, sync or timers, in which those constructs go
// through the virtual scheduler package vsched, plus a `go build -overlay`
// file that mounts the copies and the vsched package into the module. The
// module's own tree is never modified.
//
// Anything it cannot model is a hard error: it prints UNSUPPORTED and exits 2.
package main

import (
	"encoding/json"
	"fmt"
	"go/ast"
	"go/importer"
	"go/parser"
	"go/token"
	"go/types"
	"os"
	"path/filepath"
	"sort"
	"strconv"
	"strings"
)

const modPath = "github.com/biscuit-auth/biscuit-go/v2"

func fatal(format string, a ...interface{}) {
	fmt.Fprintf(os.Stderr, "UNSUPPORTED: "+format+"\n", a...)
	os.Exit(2)
}

type rewriter struct {
	fset  *token.FileSet
	src   []byte
	file  *ast.File
	info  *types.Info
	tmp   int
	used  bool // some construct was rewritten: the file needs the vsched import
	fname string
}

func (r *rewriter) orig(n ast.Node) string {
	return string(r.src[r.fset.Position(n.Pos()).Offset:r.fset.Position(n.End()).Offset])
}

func (r *rewriter) isChan(e ast.Expr) bool {
	if r.info == nil {
		return false
	}
	tv, ok := r.info.Types[e]
	if !ok || tv.Type == nil {
		return false
	}
	_, isc := tv.Type.Underlying().(*types.Chan)
	return isc
}

func (r *rewriter) isBuiltin(id *ast.Ident, name string) bool {
	if id.Name != name {
		return false
	}
	if r.info == nil {
		return true
	}
	obj := r.info.Uses[id]
	_, ok := obj.(*types.Builtin)
	return ok
}

func (r *rewriter) pkgOf(id *ast.Ident) string {
	if r.info != nil {
		if pn, ok := r.info.Uses[id].(*types.PkgName); ok {
			return pn.Imported().Path()
		}
		return ""
	}
	return ""
}

func (r *rewriter) fresh() string {
	r.tmp++
	return "__vs" + strconv.Itoa(r.tmp)
}

// self returns the replacement text if n itself is a rewrite target.
func (r *rewriter) self(n ast.Node) (string, bool) {
	switch x := n.(type) {
	case *ast.ChanType:
		r.used = true
		return "*vsched.Chan[" + r.text(x.Value) + "]", true
	case *ast.CallExpr:
		if id, ok := x.Fun.(*ast.Ident); ok {
			switch {
			case r.isBuiltin(id, "make") && len(x.Args) >= 1:
				if ct, ok := x.Args[0].(*ast.ChanType); ok {
					r.used = true
					n := "0"
					if len(x.Args) > 1 {
						n = r.text(x.Args[1])
					}
					return "vsched.MakeChan[" + r.text(ct.Value) + "](" + n + ")", true
				}
				// make(T) where T is a named channel type
				if len(x.Args) >= 1 && r.isChanTypeExpr(x.Args[0]) {
					fatal("%s: make of a named channel type", r.pos(x))
				}
			case r.isBuiltin(id, "close") && len(x.Args) == 1:
				r.used = true
				return "(" + r.text(x.Args[0]) + ").Close()", true
			case (r.isBuiltin(id, "len") || r.isBuiltin(id, "cap")) && len(x.Args) == 1 && r.isChan(x.Args[0]):
				r.used = true
				m := "Len"
				if id.Name == "cap" {
					m = "Cap"
				}
				return "(" + r.text(x.Args[0]) + ")." + m + "()", true
			}
		}
		if sel, ok := x.Fun.(*ast.SelectorExpr); ok {
			if id, ok := sel.X.(*ast.Ident); ok {
				switch r.pkgOf(id) {
				case "time":
					switch sel.Sel.Name {
					case "After":
						r.used = true
						return "vsched.After(" + r.args(x.Args) + ")", true
					case "Sleep":
						r.used = true
						return "vsched.Sleep(" + r.args(x.Args) + ")", true
					case "NewTimer", "AfterFunc", "Tick", "NewTicker":
						fatal("%s: time.%s is not modelled", r.pos(x), sel.Sel.Name)
					}
				case "reflect":
					if sel.Sel.Name == "Select" || sel.Sel.Name == "MakeChan" {
						fatal("%s: reflect.%s is not modelled", r.pos(x), sel.Sel.Name)
					}
				}
			}
		}
	case *ast.SendStmt:
		r.used = true
		return "(" + r.text(x.Chan) + ").Send(" + r.text(x.Value) + ")", true
	case *ast.UnaryExpr:
		if x.Op == token.ARROW {
			r.used = true
			return "(" + r.text(x.X) + ").Recv1()", true
		}
	case *ast.AssignStmt:
		if len(x.Lhs) == 2 && len(x.Rhs) == 1 {
			if u, ok := x.Rhs[0].(*ast.UnaryExpr); ok && u.Op == token.ARROW {
				r.used = true
				return r.text(x.Lhs[0]) + ", " + r.text(x.Lhs[1]) + " " + x.Tok.String() + " (" + r.text(u.X) + ").Recv2()", true
			}
		}
	case *ast.ValueSpec:
		if len(x.Names) == 2 && len(x.Values) == 1 {
			if u, ok := x.Values[0].(*ast.UnaryExpr); ok && u.Op == token.ARROW {
				r.used = true
				t := ""
				if x.Type != nil {
					fatal("%s: typed two-value receive declaration", r.pos(x))
				}
				return x.Names[0].Name + ", " + x.Names[1].Name + t + " = (" + r.text(u.X) + ").Recv2()", true
			}
		}
	case *ast.RangeStmt:
		if r.isChan(x.X) {
			r.used = true
			ok := r.fresh()
			key := "_"
			if x.Key != nil {
				key = r.text(x.Key)
			}
			if x.Value != nil {
				fatal("%s: range over channel with two variables", r.pos(x))
			}
			body := r.text(x.Body)
			inner := strings.TrimSuffix(strings.TrimPrefix(strings.TrimSpace(body), "{"), "}")
			var head string
			if x.Tok == token.ASSIGN {
				head = "var " + ok + " bool; " + key + ", " + ok + " = (" + r.text(x.X) + ").Recv2()"
			} else {
				head = key + ", " + ok + " := (" + r.text(x.X) + ").Recv2()"
			}
			return "for {\n" + head + "\nif !" + ok + " {\nbreak\n}\n" + inner + "\n}", true
		}
	case *ast.GoStmt:
		r.used = true
		var pre []string
		call := x.Call
		fun := ""
		switch f := call.Fun.(type) {
		case *ast.FuncLit:
			fun = "(" + r.text(f) + ")"
		case *ast.Ident:
			fun = r.text(f)
		default:
			tmp := r.fresh()
			pre = append(pre, tmp+" := "+r.text(call.Fun))
			fun = tmp
		}
		var args []string
		for i, a := range call.Args {
			tmp := r.fresh()
			pre = append(pre, tmp+" := "+r.text(a))
			if i == len(call.Args)-1 && call.Ellipsis.IsValid() {
				tmp += "..."
			}
			args = append(args, tmp)
		}
		return "{\n" + strings.Join(pre, "\n") + "\nvsched.Go(func() { " + fun + "(" + strings.Join(args, ", ") + ") })\n}", true
	case *ast.SelectStmt:
		r.used = true
		return r.selectStmt(x), true
	}
	return "", false
}

func (r *rewriter) isChanTypeExpr(e ast.Expr) bool {
	if r.info == nil {
		return false
	}
	tv, ok := r.info.Types[e]
	if !ok || !tv.IsType() {
		return false
	}
	_, isc := tv.Type.Underlying().(*types.Chan)
	return isc
}

func (r *rewriter) pos(n ast.Node) string { return r.fset.Position(n.Pos()).String() }

func (r *rewriter) args(as []ast.Expr) string {
	var s []string
	for _, a := range as {
		s = append(s, r.text(a))
	}
	return strings.Join(s, ", ")
}

func (r *rewriter) selectStmt(x *ast.SelectStmt) string {
	var temps, inits, arms []string
	hasDefault := false
	idx := 0
	for _, st := range x.Body.List {
		cc := st.(*ast.CommClause)
		var body []string
		for _, b := range cc.Body {
			body = append(body, r.text(b))
		}
		if cc.Comm == nil {
			hasDefault = true
			arms = append(arms, "case -1:\n"+strings.Join(body, "\n"))
			continue
		}
		tmp := r.fresh()
		temps = append(temps, tmp)
		var prefix string
		switch c := cc.Comm.(type) {
		case *ast.SendStmt:
			inits = append(inits, "vsched.SendCase("+r.text(c.Chan)+", "+r.text(c.Value)+")")
		case *ast.ExprStmt:
			u, ok := c.X.(*ast.UnaryExpr)
			if !ok || u.Op != token.ARROW {
				fatal("%s: select case is not a channel operation", r.pos(c))
			}
			inits = append(inits, "vsched.RecvCase("+r.text(u.X)+")")
		case *ast.AssignStmt:
			u, ok := c.Rhs[0].(*ast.UnaryExpr)
			if !ok || u.Op != token.ARROW || len(c.Rhs) != 1 {
				fatal("%s: select case is not a channel operation", r.pos(c))
			}
			inits = append(inits, "vsched.RecvCase("+r.text(u.X)+")")
			if len(c.Lhs) == 1 {
				prefix = r.text(c.Lhs[0]) + " " + c.Tok.String() + " " + tmp + ".V()\n"
			} else {
				prefix = r.text(c.Lhs[0]) + ", " + r.text(c.Lhs[1]) + " " + c.Tok.String() + " " + tmp + ".V(), " + tmp + ".OK()\n"
			}
		default:
			fatal("%s: unknown select case", r.pos(cc))
		}
		arms = append(arms, "case "+strconv.Itoa(idx)+":\n"+prefix+strings.Join(body, "\n"))
		idx++
	}
	head := "switch "
	if len(temps) > 0 {
		head += strings.Join(temps, ", ") + " := " + strings.Join(inits, ", ") + "; "
	}
	call := "vsched.Select(" + strconv.FormatBool(hasDefault)
	for _, t := range temps {
		call += ", " + t
	}
	call += ")"
	// a select whose clauses all terminate is a terminating statement; keep that property
	arms = append(arms, "default:\npanic(\"vsched: select returned an unknown case\")")
	return head + call + " {\n" + strings.Join(arms, "\n") + "\n}"
}

// text returns the rewritten source text of n.
func (r *rewriter) text(n ast.Node) string {
	if n == nil {
		return ""
	}
	if s, ok := r.self(n); ok {
		return s
	}
	// splice the rewritten text of the outermost targets below n into n's text
	type edit struct {
		a, b int
		s    string
	}
	var edits []edit
	base := r.fset.Position(n.Pos()).Offset
	ast.Inspect(n, func(m ast.Node) bool {
		if m == nil || m == n {
			return true
		}
		if s, ok := r.self(m); ok {
			edits = append(edits, edit{r.fset.Position(m.Pos()).Offset - base, r.fset.Position(m.End()).Offset - base, s})
			return false
		}
		return true
	})
	out := r.orig(n)
	sort.Slice(edits, func(i, j int) bool { return edits[i].a > edits[j].a })
	for _, e := range edits {
		out = out[:e.a] + e.s + out[e.b:]
	}
	return out
}

func usesConcurrency(f *ast.File) bool {
	found := false
	for _, im := range f.Imports {
		switch strings.Trim(im.Path.Value, `"`) {
		case "context", "sync", "sync/atomic":
			found = true
		}
	}
	ast.Inspect(f, func(n ast.Node) bool {
		switch x := n.(type) {
		case *ast.GoStmt, *ast.ChanType, *ast.SelectStmt, *ast.SendStmt:
			found = true
		case *ast.UnaryExpr:
			if x.Op == token.ARROW {
				found = true
			}
		case *ast.SelectorExpr:
			if id, ok := x.X.(*ast.Ident); ok && id.Name == "time" {
				switch x.Sel.Name {
				case "After", "Sleep", "NewTimer", "AfterFunc", "Tick", "NewTicker":
					found = true
				}
			}
		}
		return true
	})
	return found
}

func main() {
	if len(os.Args) != 4 {
		fmt.Fprintln(os.Stderr, "usage: rewrite <module dir> <vsched source dir> <output dir>")
		os.Exit(3)
	}
	mod, vsrc, out := os.Args[1], os.Args[2], os.Args[3]
	os.RemoveAll(out)
	os.MkdirAll(out, 0o755)
	overlay := map[string]string{}
	// 1. mount the vsched package (and its sub-packages) into the module
	filepath.Walk(vsrc, func(p string, fi os.FileInfo, err error) error {
		if err != nil || fi.IsDir() || !strings.HasSuffix(p, ".go") || strings.HasSuffix(p, "_test.go") {
			return nil
		}
		rel, _ := filepath.Rel(vsrc, p)
		overlay[filepath.Join(mod, "vsched", rel)] = p
		return nil
	})
	// 2. rewrite every package that uses concurrency
	var dirs []string
	filepath.Walk(mod, func(p string, fi os.FileInfo, err error) error {
		if err != nil {
			return nil
		}
		if fi.IsDir() {
			b := filepath.Base(p)
			if p != mod && (strings.HasPrefix(b, ".") || b == "vsched" || b == "testdata" || b == "MUTANTS") {
				return filepath.SkipDir
			}
			dirs = append(dirs, p)
		}
		return nil
	})
	rewritten := 0
	for _, dir := range dirs {
		fset := token.NewFileSet()
		pkgs, err := parser.ParseDir(fset, dir, func(fi os.FileInfo) bool { return !strings.HasSuffix(fi.Name(), "_test.go") }, parser.ParseComments)
		if err != nil {
			fatal("%s does not parse: %v", dir, err)
		}
		for _, pkg := range pkgs {
			var files []*ast.File
			var names []string
			need := false
			for name, f := range pkg.Files {
				// generated protobuf code uses sync for lazy descriptor initialisation only; it is not part of the model
				if strings.HasSuffix(name, ".pb.go") {
					continue
				}
				names = append(names, name)
				if usesConcurrency(f) {
					need = true
				}
			}
			if !need {
				continue
			}
			sort.Strings(names)
			for _, n := range names {
				files = append(files, pkg.Files[n])
			}
			info := &types.Info{Types: map[ast.Expr]types.TypeAndValue{}, Uses: map[*ast.Ident]types.Object{}, Defs: map[*ast.Ident]types.Object{}}
			conf := types.Config{Importer: importer.ForCompiler(fset, "source", nil), Error: func(error) {}}
			cwd, _ := os.Getwd()
			os.Chdir(mod)
			_, terr := conf.Check(pkg.Name, fset, files, info)
			os.Chdir(cwd)
			if terr != nil {
				fatal("package in %s does not type-check (%v); a package that uses goroutines or channels must import only packages the source importer can load", dir, terr)
			}
			for i, f := range files {
				if !usesConcurrency(f) {
					continue
				}
				src, err := os.ReadFile(names[i])
				if err != nil {
					fatal("%v", err)
				}
				r := &rewriter{fset: fset, src: src, file: f, info: info, fname: names[i]}
				// rewrite declarations one by one, keep everything else (comments, package clause) as is
				type edit struct {
					a, b int
					s    string
				}
				var edits []edit
				for _, d := range f.Decls {
					if gd, ok := d.(*ast.GenDecl); ok && gd.Tok == token.IMPORT {
						continue
					}
					edits = append(edits, edit{fset.Position(d.Pos()).Offset, fset.Position(d.End()).Offset, r.text(d)})
				}
				// imports
				hasTime := false
				for _, im := range f.Imports {
					path := strings.Trim(im.Path.Value, `"`)
					name := ""
					if im.Name != nil {
						name = im.Name.Name
					}
					repl := ""
					switch path {
					case "context":
						if name == "" {
							name = "context"
						}
						repl = name + ` "` + modPath + `/vsched/vctx"`
					case "sync":
						if name == "" {
							name = "sync"
						}
						repl = name + ` "` + modPath + `/vsched/vsync"`
					case "time":
						hasTime = true
					}
					if repl != "" {
						edits = append(edits, edit{fset.Position(im.Pos()).Offset, fset.Position(im.End()).Offset, repl})
					}
				}
				outSrc := string(src)
				sort.Slice(edits, func(i, j int) bool { return edits[i].a > edits[j].a })
				for _, e := range edits {
					outSrc = outSrc[:e.a] + e.s + outSrc[e.b:]
				}
				if r.used {
					// add the vsched import right after the package clause
					pe := fset.Position(f.Name.End()).Offset
					outSrc = outSrc[:pe] + "\n\nimport \"" + modPath + "/vsched\"\n" + outSrc[pe:] + "\nvar _ = vsched.Yield\n"
				}
				if hasTime {
					outSrc += "\nvar _ time.Duration\n"
				}
				rel, _ := filepath.Rel(mod, names[i])
				dst := filepath.Join(out, rel)
				os.MkdirAll(filepath.Dir(dst), 0o755)
				if err := os.WriteFile(dst, []byte(outSrc), 0o644); err != nil {
					fatal("%v", err)
				}
				overlay[names[i]] = dst
				rewritten++
				fmt.Fprintf(os.Stderr, "rewrite: %s -> %s\n", names[i], dst)
			}
		}
	}
	// 3. an accessor for the package-level variables of every package of the module
	//    (the C19 footprint pass treats them as memory shared by all goroutines)
	for _, dir := range dirs {
		fset := token.NewFileSet()
		pkgs, err := parser.ParseDir(fset, dir, func(fi os.FileInfo) bool { return !strings.HasSuffix(fi.Name(), "_test.go") }, 0)
		if err != nil {
			continue
		}
		for _, pkg := range pkgs {
			if pkg.Name == "pb" || pkg.Name == "main" || strings.HasSuffix(pkg.Name, "_test") {
				continue
			}
			var names []string
			for fname, f := range pkg.Files {
				if strings.HasSuffix(fname, ".pb.go") {
					continue
				}
				for _, d := range f.Decls {
					gd, ok := d.(*ast.GenDecl)
					if !ok || gd.Tok != token.VAR {
						continue
					}
					for _, sp := range gd.Specs {
						for _, n := range sp.(*ast.ValueSpec).Names {
							if n.Name != "_" {
								names = append(names, n.Name)
							}
						}
					}
				}
			}
			if len(names) == 0 {
				continue
			}
			sort.Strings(names)
			var sb strings.Builder
			fmt.Fprintf(&sb, "package %s\n\n// VerifGlobals is generated by the verification harness (build overlay only).\nfunc VerifGlobals() map[string]interface{} {\n\treturn map[string]interface{}{\n", pkg.Name)
			for _, n := range names {
				fmt.Fprintf(&sb, "\t\t%q: &%s,\n", n, n)
			}
			sb.WriteString("\t}\n}\n")
			rel, _ := filepath.Rel(mod, dir)
			dst := filepath.Join(out, rel, "zz_verif_globals.go")
			os.MkdirAll(filepath.Dir(dst), 0o755)
			os.WriteFile(dst, []byte(sb.String()), 0o644)
			overlay[filepath.Join(dir, "zz_verif_globals.go")] = dst
		}
	}
	b, _ := json.MarshalIndent(map[string]interface{}{"Replace": overlay}, "", " ")
	if err := os.WriteFile(filepath.Join(out, "overlay.json"), b, 0o644); err != nil {
		fatal("%v", err)
	}
	fmt.Fprintf(os.Stderr, "rewrite: %d file(s) rewritten, overlay written\n", rewritten)
}
