#!/usr/bin/env python3
"""Prints the markdown table of DESIGN.md 8.7 from seeded/RESULTS.txt and seeded/*/meta.json."""
import json, re, os, sys, collections
root = os.path.join(os.path.dirname(__file__), '..')
res = collections.OrderedDict()
for l in open(os.path.join(root, 'seeded/RESULTS.txt')):
    m = re.match(r'TRY (\S+) check=(\S+) exit=(\d+) violations=(\d+)\s*(.*)', l)
    if not m:
        continue
    name, chk, rc, nv, sig = m.groups()
    sigs = [re.sub(r' \(\d+ cases?\)', '', s).strip() for s in sig.split('---') if s.strip()]
    res.setdefault(name, []).append((chk, int(rc), int(nv), sigs))
def first_sentence(s, n=170):
    s = ' '.join(s.split())
    s = s if len(s) <= n else s[:n].rsplit(' ', 1)[0] + ' …'
    return s.replace('|', '\\|')
print('| change | what it does | caught by (first signature) | not caught by |')
print('|---|---|---|---|')
for name, rows in res.items():
    mp = os.path.join(root, 'seeded', name, 'meta.json')
    summ = first_sentence(json.load(open(mp)).get('summary', '')) if os.path.exists(mp) else ''
    caught = ['%s `%s`' % (c, (s[0] if s else 'violation')[:70]) for c, rc, nv, s in rows if rc == 1]
    missed = ['%s (exit %d)' % (c, rc) for c, rc, nv, s in rows if rc != 1]
    print('| %s | %s | %s | %s |' % (name, summ, '; '.join(caught) or '**none**', ', '.join(missed) or ''))
