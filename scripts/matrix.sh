#!/bin/bash
# Runs every seeded change against the checks expected to catch it (quick tier) and writes seeded/RESULTS.txt.
# /repo is modified temporarily (git apply / git checkout) - do not run anything else against /repo meanwhile.
set -u
cd "$(dirname "$0")/.."
OUT=seeded/RESULTS.txt
: > $OUT.tmp
while read -r name checks; do
  [ -z "$name" ] && continue
  case "$name" in \#*) continue;; esac
  scripts/try_mutant.sh "$name" $checks 2>&1 | grep '^TRY' | cut -c1-600 >> $OUT.tmp
done <<'LIST'
C01-m1 C01 C07 C08 C17
C01-m2 C01
C02-m1 C02 C03
C02-m2 C02 C08
C03-m1 C03 C02
C03-m2 C03
C04-m1 C04
C04-m2 C04 C05
C05-m1 C05 C11
C05-m2 C05 C12
C06-m1 C06
C06-m2 C06
C07-m1 C07 C01
C07-m2 C07 C16 C09
C08-m1 C08
C08-m2 C08 C19
C09-m1 C09
C09-m2 C09 C01
C10-m1 C10 C15
C10-m2 C10
C11-m1 C11 C05
C11-m2 C11
C12-m1 C12 C05
C12-m2 C12 C05
C13-m1 C13
C13-m2 C13
C14-m1 C14
C14-m2 C14
C15-m1 C15
C15-m2 C15
C16-m1 C16
C16-m2 C16
C17-m1 C17
C17-m2 C17 C20
C18-m1 C18
C19-m1 C19 C08
C19-m2 C19
C20-m1 C20
C20-m2 C20
C01-r2m1 C01
C01-r2m2 C01
C02-r2m1 C02
C02-r2m2 C02
C03-r2m1 C03
C03-r2m2 C03
C04-r2m1 C04 C11
C04-r2m2 C04
C05-r2m1 C05
C05-r2m2 C05
C06-r2m1 C06
C06-r2m2 C06
C07-r2m1 C07 C08
C07-r2m2 C07
C08-r2m1 C08
C08-r2m2 C08
C09-r2m1 C09
C09-r2m2 C09
C10-r2m1 C10
C10-r2m2 C10
C11-r2m1 C11
C11-r2m2 C11
C12-r2m1 C12
C12-r2m2 C12
C13-r2m1 C13
C13-r2m2 C13
C14-r2m1 C14
C14-r2m2 C14
C15-r2m1 C15
C15-r2m2 C15
C16-r2m1 C16
C16-r2m2 C16
C17-r2m1 C17
C17-r2m2 C17
C18-r2m1 C18
C18-r2m2 C18
C19-r2m1 C19
C19-r2m2 C19
C20-r2m1 C20
C20-r2m2 C20
C01-r3m1 C01
C01-r3m2 C01
C02-r3m1 C02
C02-r3m2 C02
C03-r3m1 C03
C03-r3m2 C03
C04-r3m1 C04 C13
C04-r3m2 C04 C18
C05-r3m1 C05
C05-r3m2 C05
C06-r3m1 C06
C06-r3m2 C06
C07-r3m1 C07
C07-r3m2 C07
C08-r3m1 C08
C08-r3m2 C08 C07
C09-r3m1 C09
C09-r3m2 C09 C01
C10-r3m1 C10
C10-r3m2 C10
C11-r3m1 C11
C11-r3m2 C11
C12-r3m1 C12 C05
C12-r3m2 C13 C12
C13-r3m1 C13
C13-r3m2 C13
C14-r3m1 C14
C14-r3m2 C14
C15-r3m1 C15
C15-r3m2 C15
C16-r3m1 C16
C16-r3m2 C16
C17-r3m1 C17
C17-r3m2 C17 C07
C18-r3m1 C18
C18-r3m2 C18
C19-r3m1 C19 C08
C19-r3m2 C19
C20-r3m1 C20
C20-r3m2 C20
revert-D1 C08 C19
revert-D2 C13
revert-D3 C19
revert-D4 C16 C07
revert-D5 C20
revert-D6 C06
revert-D7 C06 C10 C05 C18
revert-D8 C10
revert-D9 C10 C01
revert-D10 C11
revert-D11a C11
revert-D11b C11
revert-D12 C14
revert-D13 C18 C10
revert-D14 C18
revert-D15 C05
LIST
mv $OUT.tmp $OUT
git -C /repo status --short | head -3
echo MATRIX-DONE
