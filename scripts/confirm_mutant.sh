#!/bin/bash
# usage: scripts/confirm_mutant.sh <worktree> <k> <name>
# Confirms a seeded change in its scratch worktree (suite passes with it, demo fails with it,
# demo passes without it) and files it under seeded/<name>/.
set -u
. "$(dirname "$0")/env.sh"
WT="$1"; K="$2"; NAME="$3"
M="$WT/MUTANTS/$K"
[ -f "$M/patch.diff" ] || { echo "no patch in $M"; exit 2; }
DEMO_DIR=$(python3 -c "import json;print(json.load(open('$M/meta.json')).get('demo_dir','.') or '.')")
DEMO_DIR="${DEMO_DIR#./}"; [ -z "$DEMO_DIR" ] && DEMO_DIR=.
TMPM=$(mktemp -d /tmp/mutants.XXXX)
mv "$WT/MUTANTS" "$TMPM/MUTANTS"; M="$TMPM/MUTANTS/$K"
restore() { mv "$TMPM/MUTANTS" "$WT/MUTANTS"; rmdir "$TMPM"; }
cd "$WT" && git checkout -q -- . && git clean -fdq
git apply "$M/patch.diff" || { echo "RESULT $NAME patch-does-not-apply"; restore; exit 1; }
suite_ok=yes
# the suite's 1-2 ms evaluation timeouts fire at random on a loaded machine: a change counts as
# passing the suite if every package has one clean run (packages are run one at a time, up to 10 tries)
: > "$TMPM/suite.log"
for pkg in $(go list ./... | grep -v MUTANTS); do
  pkg_ok=no
  for try in 1 2 3 4 5 6 7 8 9 10; do
    if go test -p 1 -vet=off -count=1 "$pkg" > "$TMPM/pkg.log" 2>&1; then pkg_ok=yes; break; fi
  done
  cat "$TMPM/pkg.log" >> "$TMPM/suite.log"
  [ $pkg_ok = yes ] || { suite_ok=no; break; }
done
cp "$M/demo_test.go" "$WT/$DEMO_DIR/zz_demo_test.go"
PKG="./$DEMO_DIR"
RACE=""; grep -q -- "-race" "$M/meta.json" && RACE="-race"
go test $RACE -vet=off -count=1 -run 'C[0-9][0-9]|Demo|Mutant' "$PKG" > "$TMPM/demo_with.log" 2>&1; with=$?
git checkout -q -- . 
go test $RACE -vet=off -count=1 -run 'C[0-9][0-9]|Demo|Mutant' "$PKG" > "$TMPM/demo_without.log" 2>&1; without=$?
rm -f "$WT/$DEMO_DIR/zz_demo_test.go"
echo "RESULT $NAME suite_with_patch=$suite_ok demo_with_patch_exit=$with demo_without_patch_exit=$without"
if [ "$suite_ok" = yes ] && [ $with -ne 0 ] && [ $without -eq 0 ]; then
  D="$VERIF_ROOT/seeded/$NAME"; mkdir -p "$D"
  cp "$M/patch.diff" "$D/patch.diff"; cp "$M/demo_test.go" "$D/demo_test.go.txt"
  python3 - "$M/meta.json" "$D/meta.json" <<PY
import json,sys
m=json.load(open(sys.argv[1]))
m["confirmed"]={"suite_with_patch":"all packages ok (go test -vet=off -count=1 ./... in a scratch worktree)","demo_with_patch":"FAIL","demo_without_patch":"PASS","by":"scripts/confirm_mutant.sh"}
json.dump(m,open(sys.argv[2],"w"),indent=1)
PY
  echo "KEPT $NAME"
else
  tail -5 "$TMPM/suite.log" | sed 's/^/   suite: /'; tail -5 "$TMPM/demo_with.log" | sed 's/^/   with: /'; tail -3 "$TMPM/demo_without.log" | sed 's/^/   without: /'
fi
rm -f "$TMPM"/*.log
restore
