#!/bin/bash
# Engine A build: rewrite the CURRENT /repo sources onto the virtual scheduler and build the
# harness with the overlay. Exit 2 (UNSUPPORTED / BUILD-FAILED) when that is impossible.
set -u
. "$(dirname "$0")/env.sh"
cd "$VERIF_ROOT"
mkdir -p bin work
cp "$VERIF_REPO/go.sum" go.sum 2>/dev/null
go build -o bin/rewrite ./tools/rewrite || { echo "BUILD-FAILED: rewriter" >&2; exit 2; }
bin/rewrite "$VERIF_REPO" "$VERIF_ROOT/internal/vsched" "$VERIF_ROOT/work/rw" 2> work/rewrite.log || { cat work/rewrite.log >&2; exit 2; }
if ! go build -tags vsched -overlay work/rw/overlay.json -o bin/check-overlay ./cmd/check 2> work/build.overlay.log; then
  cat work/build.overlay.log >&2
  echo "BUILD-FAILED: the rewritten library or the harness does not compile against the current /repo tree" >&2
  exit 2
fi
