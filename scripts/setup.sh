#!/bin/bash
# Run once after a fresh restore, offline: warm the build cache and build the harness binaries.
set -u
. "$(dirname "$0")/env.sh"
cd "$VERIF_ROOT"
mkdir -p bin work evidence replays
cp /repo/go.sum go.sum
go build -o bin/check ./cmd/check || { echo "setup: harness build failed" >&2; exit 1; }
if [ -x scripts/build-overlay.sh ]; then scripts/build-overlay.sh || exit 1; fi
go test -race -c -o bin/racepass.test ./internal/racepass || { echo "setup: race pass build failed" >&2; exit 1; }
echo "setup ok"
