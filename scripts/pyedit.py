"""Indentation-agnostic source edits: anchors are matched on stripped lines."""
import sys
def _find(lines, anchor, nth=0):
    a=[l.strip() for l in anchor.strip('\n').split('\n')]
    hits=[]
    for i in range(len(lines)-len(a)+1):
        if all(lines[i+j].strip()==a[j] for j in range(len(a))):
            hits.append(i)
    assert hits, "anchor not found: "+a[0]
    return hits[nth], len(a)
def _indent(line):
    return line[:len(line)-len(line.lstrip())]
def replace(path, anchor, new, nth=0):
    lines=open(path).read().split('\n')
    i,n=_find(lines, anchor, nth)
    ind=_indent(lines[i])
    newl=new.strip('\n').split('\n')
    base=_indent(newl[0])
    out=[(ind+l[len(base):] if l.strip() else l) for l in newl]
    lines[i:i+n]=out
    open(path,'w').write('\n'.join(lines))
def insert_before(path, anchor, new, nth=0):
    lines=open(path).read().split('\n')
    i,n=_find(lines, anchor, nth)
    ind=_indent(lines[i])
    newl=new.strip('\n').split('\n')
    base=_indent(newl[0])
    out=[(ind+l[len(base):] if l.strip() else l) for l in newl]
    lines[i:i]=out
    open(path,'w').write('\n'.join(lines))
