#!/bin/bash
# Round-3 seeded changes against the checks expected to catch them; appends to seeded/RESULTS3.txt.
set -u
cd "$(dirname "$0")/.."
OUT=seeded/RESULTS3.txt
: > $OUT.tmp
while read -r name checks; do
  [ -z "$name" ] && continue
  [ -d seeded/$name ] || { echo "SKIP $name (not confirmed)" >> $OUT.tmp; continue; }
  scripts/try_mutant.sh "$name" $checks 2>&1 | grep '^TRY' | cut -c1-600 >> $OUT.tmp
done <<'LIST'
C01-r3m1 C01
C01-r3m2 C01
C02-r3m1 C02
C02-r3m2 C02
C03-r3m1 C03
C03-r3m2 C03
C04-r3m1 C04 C13
C04-r3m2 C04 C18
C05-r3m1 C05
C05-r3m2 C05
C06-r3m1 C06
C06-r3m2 C06
C07-r3m1 C07
C07-r3m2 C07
C08-r3m1 C08
C08-r3m2 C08 C07
C09-r3m1 C09
C09-r3m2 C09 C01
C10-r3m1 C10
C10-r3m2 C10
C11-r3m1 C11
C11-r3m2 C11
C12-r3m1 C12 C05
C12-r3m2 C12 C13
C13-r3m1 C13
C13-r3m2 C13
C14-r3m1 C14
C14-r3m2 C14
C15-r3m1 C15
C15-r3m2 C15
C16-r3m1 C16
C16-r3m2 C16
C17-r3m1 C17
C17-r3m2 C17 C07
C18-r3m1 C18
C18-r3m2 C18
C19-r3m1 C19 C08
C19-r3m2 C19
C20-r3m1 C20
C20-r3m2 C20
LIST
mv $OUT.tmp $OUT
git -C /repo status --short | head -3
echo MATRIX3-DONE
