#!/usr/bin/env python3
"""Prints a markdown table of what the committed evidence files say each space covered."""
import json, glob, os
root = os.path.join(os.path.dirname(__file__), '..')
print('| check | tier | wall | space | cases | states / transitions | exhaustive | outcome classes |')
print('|---|---|---|---|---|---|---|---|')
for f in sorted(glob.glob(os.path.join(root, 'evidence', 'C*.json'))):
    d = json.load(open(f))
    sp = (d.get('coverage') or {}).get('spaces') or {}
    first = True
    for name in sorted(sp):
        v = sp[name]
        st = ''
        if v.get('states'):
            st = '%s / %s' % (v.get('states'), v.get('transitions'))
        cls = v.get('outcome_classes') or {}
        print('| %s | %s | %s | %s | %s | %s | %s | %d |' % (
            d.get('property_id', os.path.basename(f)[:3]) if first else '', d.get('tier', '') if first else '',
            ('%.0f s' % d['wall_s']) if first and 'wall_s' in d else '', name, v.get('evaluations'), st,
            'yes' if v.get('exhaustive', True) else 'no (deadline)', len(cls)))
        first = False
