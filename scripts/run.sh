#!/bin/bash
# usage: scripts/run.sh <Cxx> [quick|thorough]
# Rebuilds the harness against /repo's current working tree, then runs the check.
set -u
. "$(dirname "$0")/env.sh"
cd "$VERIF_ROOT"
ID="$1"; TIER="${2:-${VERIF_TIER:-quick}}"
mkdir -p bin work evidence replays
cp "$VERIF_REPO/go.sum" go.sum 2>/dev/null
case "$ID" in
  C11|C19) BIN=bin/check-overlay; scripts/build-overlay.sh || exit $?
     if [ "$ID" = C19 ]; then
        # auxiliary pass: the race detector on the UNMODIFIED current tree
        if ! go test -race -c -o bin/racepass.test ./internal/racepass 2> work/build.race.log; then
           cat work/build.race.log >&2; echo "BUILD-FAILED: race pass" >&2; exit 2
        fi
     fi ;;
  *) BIN=bin/check
     if ! go build -o bin/check ./cmd/check 2> work/build.$ID.log; then
        cat work/build.$ID.log >&2
        echo "BUILD-FAILED: harness does not compile against the current /repo tree" >&2
        exit 2
     fi ;;
esac
exec "$BIN" run "$ID" --tier "$TIER"
