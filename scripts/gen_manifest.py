#!/usr/bin/env python3
"""Regenerates MANIFEST.json from the table below (kept here so the manifest is always valid)."""
import json, os, subprocess
ROOT = os.path.dirname(os.path.dirname(os.path.abspath(__file__)))
BASE_OFF = "cd /repo && go test -mod=mod -json -vet=off -count=1 -timeout 25m ./..."
# id -> (level, technique, text, note, design_ref, engine)
CHECKS = {}
for fn in sorted(os.listdir(os.path.join(ROOT, "scripts", "checks"))):
    if fn.endswith(".json"):
        d = json.load(open(os.path.join(ROOT, "scripts", "checks", fn)))
        CHECKS[fn[:-5]] = (d["level"], d["technique"], d["text"], d["note"], d["design_ref"], d["engine"])
PENDING = "check not built yet in this revision (work in progress; see DESIGN.md §4 for the planned bounded-exhaustive check)"
def main():
    ids = [json.loads(l)["id"] for l in open(os.path.join(ROOT, "properties.jsonl"))]
    checks, na = [], []
    for i in ids:
        if i in CHECKS:
            lvl, tech, text, note, ref, eng = CHECKS[i]
            checks.append({
                "property_id": i,
                "quick_cmd": f"scripts/run.sh {i} quick",
                "thorough_cmd": f"scripts/run.sh {i} thorough",
                "evidence_file": f"/verif/evidence/{i}.json",
                "replay_cmd_template": "bin/check replay {path}",
                "engine": eng,
                "level_claimed": {"category": lvl, "text": text, "design_ref": ref},
                "level_note": note,
                "technique": tech,
            })
        else:
            na.append({"property_id": i, "reason": PENDING})
    hooks_commits = []
    m = {
        "version": 1,
        "setup_cmd": "scripts/setup.sh",
        "hooks": {
            "guard": "verif",
            "enable": "no source hook is compiled into /repo: Engine A instruments datalog/*.go by a source-to-source rewrite mounted with `go build -overlay` at check time (scripts/build-overlay.sh); all other checks use the public API plus reflect/unsafe from the harness. The build tag `verif` is reserved and unused.",
            "baseline_off_cmd": BASE_OFF,
            "source_commits": hooks_commits,
            "add_only": True,
        },
        "engines": [
            {"name": "ssx", "path": "internal/sup + internal/props", "serves_properties": [c for c in CHECKS if CHECKS[c][5] == "ssx"], "kind_free_text": "bounded-exhaustive / explicit-state search over inputs and operation histories on the real code, supervised child processes, reference models in Go"},
            {"name": "sched", "path": "tools/rewrite + internal/vsched", "serves_properties": [c for c in CHECKS if CHECKS[c][5] == "sched"], "kind_free_text": "stateless deviation-bounded exploration of goroutine schedules and virtual-timer firing points on a rewritten copy of the real datalog package"},
        ],
        "checks": checks,
        "not_applicable": na,
        "notes": "Exit codes: 0 held, 1 VIOLATION, 2 UNSUPPORTED/build failure against the edited tree, 3 harness self-check failure. See DESIGN.md §7.",
    }
    json.dump(m, open(os.path.join(ROOT, "MANIFEST.json"), "w"), indent=1)
    print("claimed:", [c["property_id"] for c in checks])
if __name__ == "__main__":
    main()
