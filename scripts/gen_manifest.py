#!/usr/bin/env python3
"""Regenerates MANIFEST.json from the table below (kept here so the manifest is always valid)."""
import json, os, subprocess
ROOT = os.path.dirname(os.path.dirname(os.path.abspath(__file__)))
BASE_OFF = "cd /repo && go test -mod=mod -json -vet=off -count=1 -timeout 25m ./..."
# id -> (level, technique, text, note, design_ref, engine)
CHECKS = {
 "C06": ("exploration", "bounded-exhaustive enumeration on the real evaluator vs. big-integer reference evaluator",
         "Every operator on every operand pair of a 49-value grid (all types, 64-bit boundaries, sets of every element type, ill-formed sets), all (a∘b)∘c arithmetic compositions over 14 boundary integers, and every operator sequence up to length 3/4 over a 28-symbol alphabet are evaluated by the library and compared with an independent math/big evaluator; panics are violations. The space is finite and enumerated completely, so the verdict is a coverage statement over that grid, not a sample.",
         "Trusted: Go regexp/strings/math/big; the harness's transcription of the operator table. Values outside the grid are not covered.", "DESIGN.md §4-C06", "ssx"),
 "C05": ("exploration", "bounded-exhaustive enumeration of programs and fact orders on the real engine vs. reference least-fixpoint evaluator",
         "Every rule with 1-2 body atoms over the 25-atom DL-small alphabet (3-atom bodies over 8 atoms), several head shapes, with/without an equality expression, is queried against every ordered list of up to 3-4 distinct ground facts in 15 constant domains (all term types, type-confusable pairs, set presentations); every single rule and ordered rule pair of a recursive alphabet is run to fixpoint on every subset of a 9-fact universe in two insertion orders. Results are compared as sets with an independent recursive-substitution evaluator. The space is finite and fully enumerated.",
         "Trusted: internal/refdl (naive least fixpoint), internal/refexpr. Programs with 4+ body atoms, 3+ rules or arity>2 are outside the scope.", "DESIGN.md §4-C05", "ssx"),
 "C04": ("exploration", "bounded-exhaustive enumeration of authorization scenarios on the real authorizer vs. reference decision procedure",
         "Four full products of small scenario alphabets (policy lists x truth assignments x check modes; checks per source x fact placement; fact placement x placed rules x probe checks; shared strings x expression kinds x check location) are authorized by the library and the outcome class (and the failed-check list) is compared with an independent implementation of the stated decision procedure over a reference least-fixpoint evaluator.",
         "Trusted: internal/refdl.Decide and internal/refexpr. Only the stated fragment is generated (ground facts, range-restricted rules, error-free or uniformly failing expressions). Scenarios with 3+ rules, 3+ blocks or policy lists longer than 3 are outside the scope.", "DESIGN.md §4-C04", "ssx"),
 "C02": ("exploration", "bounded-exhaustive differential enumeration (token, appended block, authorizer) on the real authorizer",
         "Every triple of a product of authority contents x appended blocks (all <=2-subsets of a 19-item adversarial alphabet) x authorizer contents with ordered policy lists is authorized twice, with and without the appended block; T+B accepted while T is refused is a violation. The product is finite and fully enumerated.",
         "Differential oracle, no reference model. Blocks with 3+ items and policy lists longer than 2 are outside the scope. Signature checking is C01.", "DESIGN.md §4-C02", "ssx"),
 "C03": ("exploration", "bounded-exhaustive differential enumeration of token variants (block content kept/removed/check-free/emptied/swapped) on the real authorizer",
         "For every block content X (<=2 of 16 fact/rule items), block position, 1-2 probes in every location (authorizer check, authority check, other block's check, allow/deny policy), the token variants with and without X and with the two blocks swapped are authorized and queried; outcome class, failed checks outside the block and a 6-rule Query panel (before and after Authorize) must coincide. The visibility of authority-level facts in blocks is decided by C04's S3 scope against the reference.",
         "Differential oracle. The failed-check list is parsed from the error text. Tokens with 3+ later blocks are outside the scope.", "DESIGN.md §4-C03", "ssx"),
 "C12": ("exploration", "bounded-exhaustive differential enumeration of presentation variants (permutations, renamings, duplication, repetition) on the real authorizer",
         "For every base scenario of a product of authorizer/authority/block contents, every permutation of every collection (facts, rules, checks, queries in a check, body atoms), six consistent variable renamings, each fact duplicated, and Authorize repeated three times with a Query panel after each call are run on the library; outcome class and all query result sets must equal the canonical presentation's. Thorough adds every pair of such changes.",
         "Differential oracle between presentations. Policies keep their order (the property fixes it). Scenarios with 4+ items per collection are outside the scope.", "DESIGN.md §4-C12", "ssx"),
 "C13": ("model_checking", "explicit enumeration of all operation histories (add content, authorize/query, reset) up to depth 2-3 on the real authorizer with a differential oracle",
         "All histories of 2 rounds over 24 contents x 3 actions x 4 tokens (and 3 rounds: over an 8-content sub-alphabet in quick, all 24 in thorough) are executed on one reused authorizer with Reset between rounds; the last round's Authorize outcome, failed checks and Query panel must equal those of a fresh authorizer given only that round's content. Every explored history is a run of the implementation.",
         "Differential oracle against a fresh authorizer. Histories longer than 3 rounds are outside the bound.", "DESIGN.md §4-C13", "ssx"),
 "C01": ("model_checking", "explicit-state BFS of an attacker (Dolev-Yao) model over envelope edits, every state verified on the real code against a reference chain-validity predicate",
         "The honest pool (56 library-made tokens: 2 roots x {P,Q}^1..3 x sealed/unsealed) is split by an independent decoder into a component universe; the attacker's single edits (field substitution between blocks and tokens, flipped/truncated/extended fields, block delete/duplicate/insert/swap/truncate, proof replacement incl. seals and signatures computable with held secrets, re-keying under an attacker root, key id) are applied breadth-first to depth 1 on the full pool and depth 2 (quick: sub-pool; thorough: full pool, plus depth 3 with structural third edit) with deduplication on the serialized envelope. Every reached envelope is given to Unmarshal+AuthorizerFor under three roots and compared with the specification's chain walk re-implemented over the independently decoded envelope, in both directions. Plus every single-bit flip, prefix and byte deletion of pool tokens (safety direction).",
         "Trusted: crypto/ed25519 (unforgeability is assumed, not searched), internal/wire's transcription of the schema. Completeness (valid => accepted) is asserted only for envelopes whose payloads are unmodified library-made blocks.", "DESIGN.md §4-C01", "ssx"),
}
PENDING = "check not built yet in this revision (work in progress; see DESIGN.md §4 for the planned bounded-exhaustive check)"
def main():
    ids = [json.loads(l)["id"] for l in open(os.path.join(ROOT, "properties.jsonl"))]
    checks, na = [], []
    for i in ids:
        if i in CHECKS:
            lvl, tech, text, note, ref, eng = CHECKS[i]
            checks.append({
                "property_id": i,
                "quick_cmd": f"scripts/run.sh {i} quick",
                "thorough_cmd": f"scripts/run.sh {i} thorough",
                "evidence_file": f"/verif/evidence/{i}.json",
                "replay_cmd_template": "bin/check replay {path}",
                "engine": eng,
                "level_claimed": {"category": lvl, "text": text, "design_ref": ref},
                "level_note": note,
                "technique": tech,
            })
        else:
            na.append({"property_id": i, "reason": PENDING})
    hooks_commits = []
    m = {
        "version": 1,
        "setup_cmd": "scripts/setup.sh",
        "hooks": {
            "guard": "verif",
            "enable": "no source hook is compiled into /repo: Engine A instruments datalog/*.go by a source-to-source rewrite mounted with `go build -overlay` at check time (scripts/build-overlay.sh); all other checks use the public API plus reflect/unsafe from the harness. The build tag `verif` is reserved and unused.",
            "baseline_off_cmd": BASE_OFF,
            "source_commits": hooks_commits,
            "add_only": True,
        },
        "engines": [
            {"name": "ssx", "path": "internal/sup + internal/props", "serves_properties": [c for c in CHECKS if CHECKS[c][5] == "ssx"], "kind_free_text": "bounded-exhaustive / explicit-state search over inputs and operation histories on the real code, supervised child processes, reference models in Go"},
            {"name": "sched", "path": "tools/rewrite + internal/vsched", "serves_properties": [c for c in CHECKS if CHECKS[c][5] == "sched"], "kind_free_text": "stateless deviation-bounded exploration of goroutine schedules and virtual-timer firing points on a rewritten copy of the real datalog package"},
        ],
        "checks": checks,
        "not_applicable": na,
        "notes": "Exit codes: 0 held, 1 VIOLATION, 2 UNSUPPORTED/build failure against the edited tree, 3 harness self-check failure. See DESIGN.md §7.",
    }
    json.dump(m, open(os.path.join(ROOT, "MANIFEST.json"), "w"), indent=1)
    print("claimed:", [c["property_id"] for c in checks])
if __name__ == "__main__":
    main()
