#!/bin/bash
# usage: scripts/try_scratch.sh <tag> <outfile> < list   (lines: "<seeded-name> <Cxx> [Cyy ...]")
# Runs the quick checks against seeded changes in a scratch copy of /verif with its own git worktree of
# /repo under /tmp/vs/<tag> (removed at the end), so /repo itself is never touched and several can run at once.
set -u
cd "$(dirname "$0")/.."
. scripts/env.sh
TAG="$1"; OUT="$2"
d=/tmp/vs/$TAG; rm -rf $d; mkdir -p $d
git -C /repo worktree prune
git -C /repo worktree add -q --detach $d/repo HEAD
rsync -a --exclude .git --exclude work --exclude bin --exclude replays --exclude evidence /verif/ $d/verif/
mkdir -p $d/verif/work $d/verif/bin $d/verif/evidence $d/verif/replays
sed -i "s#=> /repo#=> $d/repo#" $d/verif/go.mod
cat > $d/list.txt
( cd $d/verif; export VERIF_ROOT=$d/verif VERIF_REPO=$d/repo VERIF_BUDGET=${VERIF_BUDGET:-300s}
  scripts/setup.sh >/dev/null 2>&1
  while read -r name checks; do
    [ -z "$name" ] && continue
    scripts/try_mutant.sh "$name" $checks 2>&1 | grep '^TRY' | cut -c1-700
  done < $d/list.txt ) > "$OUT" 2>&1
git -C /repo worktree remove --force $d/repo
rm -rf $d
git -C /repo worktree prune
echo "TRY-SCRATCH-DONE $TAG $(wc -l < "$OUT") lines"
