#!/bin/bash
# usage: scripts/try_mutant.sh <seeded-name> <Cxx> [Cyy ...]
# Applies seeded/<name>/patch.diff to /repo, runs the quick checks, reverts. Prints which checks caught it.
set -u
. "$(dirname "$0")/env.sh"
NAME="$1"; shift
cd "$VERIF_ROOT"
if ! git -C "$VERIF_REPO" diff --quiet; then echo "$VERIF_REPO is dirty; refusing"; exit 2; fi
git -C "$VERIF_REPO" apply "$VERIF_ROOT/seeded/$NAME/patch.diff" || { echo "TRY $NAME patch-does-not-apply-to-/repo"; exit 1; }
for C in "$@"; do
  out=$(scripts/run.sh "$C" "${TIER:-quick}" 2>work/try.$NAME.$C.err); rc=$?
  nv=$(echo "$out" | grep -c '^VIOLATION')
  sig=$(grep '^--- ' work/try.$NAME.$C.err | head -3 | tr '\n' ' ')
  echo "TRY $NAME check=$C exit=$rc violations=$nv $sig"
done
git -C "$VERIF_REPO" checkout -- .
