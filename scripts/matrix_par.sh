#!/bin/bash
# Parallel version of matrix.sh: K shards, each with its own scratch copy of /verif and its own
# git worktree of /repo under /tmp/vshard/<k> (removed at the end). /repo itself is not modified.
# usage: scripts/matrix_par.sh [K] [name-filter-regex]
set -u
cd "$(dirname "$0")/.."
. scripts/env.sh
K="${1:-3}"; FILTER="${2:-.}"
LIST=$(sed -n "/<<'LIST'/,/^LIST/p" scripts/matrix.sh | grep -v "LIST" | grep -E "$FILTER")
rm -rf /tmp/vshard; mkdir -p /tmp/vshard
for k in $(seq 1 $K); do
  d=/tmp/vshard/$k; mkdir -p $d
  git -C /repo worktree add -q --detach $d/repo HEAD
  rsync -a --exclude .git --exclude work --exclude bin --exclude replays --exclude evidence /verif/ $d/verif/
  mkdir -p $d/verif/work $d/verif/bin $d/verif/evidence $d/verif/replays
  sed -i "s#=> /repo#=> $d/repo#" $d/verif/go.mod
  echo "$LIST" | awk -v k=$k -v K=$K 'NR%K==k%K' > $d/list.txt
  ( cd $d/verif; export VERIF_ROOT=$d/verif VERIF_REPO=$d/repo VERIF_BUDGET=${VERIF_BUDGET:-300s}
    while read -r name checks; do
      [ -z "$name" ] && continue
      scripts/try_mutant.sh "$name" $checks 2>&1 | grep '^TRY' | cut -c1-600
    done < $d/list.txt > $d/results.txt 2>&1 ) &
done
wait
# merge in list order
: > seeded/RESULTS.par.txt
echo "$LIST" | while read -r name checks; do
  [ -z "$name" ] && continue
  grep -h "^TRY $name " /tmp/vshard/*/results.txt >> seeded/RESULTS.par.txt
done
for k in $(seq 1 $K); do git -C /repo worktree remove --force /tmp/vshard/$k/repo; done
git -C /repo worktree prune
echo "MATRIX-PAR-DONE $(wc -l < seeded/RESULTS.par.txt) lines"
