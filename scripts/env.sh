# sourced by every script: offline Go environment
export GOFLAGS=-mod=mod GOPROXY=off GOSUMDB=off GOTOOLCHAIN=local
export VERIF_REPO="${VERIF_REPO:-/repo}"
export VERIF_ROOT="${VERIF_ROOT:-$(cd "$(dirname "${BASH_SOURCE[0]}")/.." && pwd)}"
