// Package refdl is the reference Datalog evaluator and the reference
// authorization decision procedure. Facts are sets of ground tuples over plain
// Go values; matching is recursive substitution. No symbol tables, no
// goroutines, no indexes: it is meant to be obviously right.
package refdl

import (
	"fmt"
	"sort"
	"strings"

	rx "verif/internal/refexpr"
)

type Atom struct {
	Name  string
	Terms []rx.Val
}

func A(name string, terms ...rx.Val) Atom { return Atom{Name: name, Terms: terms} }

func (a Atom) Key() string {
	s := make([]string, len(a.Terms))
	for i, t := range a.Terms {
		s[i] = t.Key()
	}
	return a.Name + "(" + strings.Join(s, ",") + ")"
}

func (a Atom) String() string { return a.Key() }

func (a Atom) Ground() bool {
	for _, t := range a.Terms {
		if t.K == rx.KVar {
			return false
		}
	}
	return true
}

func (a Atom) Vars() []string {
	var out []string
	for _, t := range a.Terms {
		if t.K == rx.KVar {
			out = append(out, t.S)
		}
	}
	return out
}

type Rule struct {
	Head  Atom
	Body  []Atom
	Exprs [][]rx.Op
}

func (r Rule) String() string {
	var b []string
	for _, a := range r.Body {
		b = append(b, a.Key())
	}
	for _, e := range r.Exprs {
		b = append(b, "{"+rx.OpsString(e)+"}")
	}
	return r.Head.Key() + " <- " + strings.Join(b, ", ")
}

// BodyString renders a query (a rule whose head is irrelevant).
func (r Rule) BodyString() string {
	s := r.String()
	return s[strings.Index(s, " <- ")+4:]
}

// RangeRestricted: every head variable occurs in a body atom.
func (r Rule) RangeRestricted() bool {
	bv := map[string]bool{}
	for _, a := range r.Body {
		for _, v := range a.Vars() {
			bv[v] = true
		}
	}
	for _, v := range r.Head.Vars() {
		if !bv[v] {
			return false
		}
	}
	return true
}

type Check struct{ Queries []Rule }

func (c Check) String() string {
	var q []string
	for _, r := range c.Queries {
		q = append(q, r.BodyString())
	}
	return "check if " + strings.Join(q, " or ")
}

type Policy struct {
	Allow   bool
	Queries []Rule
}

func (p Policy) String() string {
	var q []string
	for _, r := range p.Queries {
		q = append(q, r.BodyString())
	}
	k := "deny if "
	if p.Allow {
		k = "allow if "
	}
	return k + strings.Join(q, " or ")
}

type Block struct {
	Facts   []Atom
	Rules   []Rule
	Checks  []Check
	Context string
}

func (b Block) String() string {
	var s []string
	for _, f := range b.Facts {
		s = append(s, f.Key())
	}
	for _, r := range b.Rules {
		s = append(s, r.String())
	}
	for _, c := range b.Checks {
		s = append(s, c.String())
	}
	return "{" + strings.Join(s, "; ") + "}"
}

// Set is a set of ground facts.
type Set map[string]Atom

func NewSet(facts ...Atom) Set {
	s := Set{}
	for _, f := range facts {
		s[f.Key()] = f
	}
	return s
}

func (s Set) Add(a Atom) bool {
	k := a.Key()
	if _, ok := s[k]; ok {
		return false
	}
	s[k] = a
	return true
}

func (s Set) Clone() Set {
	c := make(Set, len(s))
	for k, v := range s {
		c[k] = v
	}
	return c
}

func (s Set) Keys() []string {
	ks := make([]string, 0, len(s))
	for k := range s {
		ks = append(ks, k)
	}
	sort.Strings(ks)
	return ks
}

func (s Set) String() string { return "{" + strings.Join(s.Keys(), " ") + "}" }

func (s Set) Equal(o Set) bool {
	if len(s) != len(o) {
		return false
	}
	for k := range s {
		if _, ok := o[k]; !ok {
			return false
		}
	}
	return true
}

// ErrExpr is returned when an expression of the rule fails to evaluate (or an
// outcome of the expression is not settled by the operator table).
type ErrExpr struct{ Msg string }

func (e ErrExpr) Error() string { return "expression: " + e.Msg }

// Apply returns the head instances of all substitutions that match every body
// atom consistently and make every expression true. If some expression
// evaluation errs for some substitution, err is non-nil; matches then holds
// the matches of the error-free substitutions (callers decide what to do).
func Apply(r Rule, facts Set) (matches Set, err error) {
	matches = Set{}
	// deterministic order of facts (does not matter for the result set)
	keys := facts.Keys()
	var rec func(i int, bind map[string]rx.Val)
	rec = func(i int, bind map[string]rx.Val) {
		if i == len(r.Body) {
			for _, e := range r.Exprs {
				out := rx.Eval(e, bind)
				if out.Err && len(out.Vals) == 0 {
					err = ErrExpr{out.Reason}
					return
				}
				if out.Err || len(out.Vals) != 1 {
					err = ErrExpr{"unsettled outcome: " + out.String()}
					return
				}
				if !out.Vals[0].Equal(rx.Bool(true)) {
					return
				}
			}
			h := Atom{Name: r.Head.Name, Terms: make([]rx.Val, len(r.Head.Terms))}
			for j, t := range r.Head.Terms {
				if t.K == rx.KVar {
					v, ok := bind[t.S]
					if !ok {
						err = ErrExpr{"head variable unbound"}
						return
					}
					h.Terms[j] = v
				} else {
					h.Terms[j] = t
				}
			}
			matches.Add(h)
			return
		}
		pat := r.Body[i]
		for _, k := range keys {
			f := facts[k]
			if f.Name != pat.Name || len(f.Terms) != len(pat.Terms) {
				continue
			}
			nb := bind
			copied := false
			ok := true
			for j, t := range pat.Terms {
				if t.K == rx.KVar {
					if cur, bound := nb[t.S]; bound {
						if !cur.Equal(f.Terms[j]) {
							ok = false
							break
						}
					} else {
						if !copied {
							nb = make(map[string]rx.Val, len(bind)+2)
							for kk, vv := range bind {
								nb[kk] = vv
							}
							copied = true
						}
						nb[t.S] = f.Terms[j]
					}
				} else if !t.Equal(f.Terms[j]) {
					ok = false
					break
				}
			}
			if ok {
				rec(i+1, nb)
			}
		}
	}
	rec(0, map[string]rx.Val{})
	return matches, err
}

// Satisfied reports whether a query has at least one match.
func Satisfied(q Rule, facts Set) (bool, error) {
	m, err := Apply(q, facts)
	return len(m) > 0, err
}

// Trace describes a naive bottom-up run.
type Trace struct {
	Sizes []int // number of facts after each productive iteration; Sizes[0] = initial
	// Iterations is the number of rule-application rounds a naive evaluator
	// needs including the final round that derives nothing new.
	Iterations int
}

// Fixpoint computes the least model of facts under rules by naive iteration
// (all rules applied to the same snapshot per round, like the specification).
func Fixpoint(facts Set, rules []Rule) (Set, Trace, error) {
	cur := facts.Clone()
	tr := Trace{Sizes: []int{len(cur)}}
	for {
		tr.Iterations++
		add := Set{}
		for _, r := range rules {
			m, err := Apply(r, cur)
			if err != nil {
				return cur, tr, err
			}
			for k, v := range m {
				add[k] = v
			}
		}
		n := 0
		for k, v := range add {
			if _, ok := cur[k]; !ok {
				cur[k] = v
				n++
			}
		}
		if n == 0 {
			return cur, tr, nil
		}
		tr.Sizes = append(tr.Sizes, len(cur))
		if tr.Iterations > 10000 {
			return cur, tr, fmt.Errorf("reference evaluator: no fixpoint after 10000 rounds")
		}
	}
}

// Verdict classes of Authorize.
const (
	OK        = "ok"
	Denied    = "denied"
	NoMatch   = "no-match"
	CheckFail = "check-failed"
	EvalError = "eval-error"
	Limit     = "limit"
)

// Scenario is everything that determines an authorization.
type Scenario struct {
	Authority Block
	Blocks    []Block
	Auth      Block // authorizer facts, rules, checks
	Policies  []Policy
}

func (s Scenario) String() string {
	var b []string
	for _, x := range s.Blocks {
		b = append(b, x.String())
	}
	var p []string
	for _, x := range s.Policies {
		p = append(p, x.String())
	}
	return fmt.Sprintf("authority=%s blocks=[%s] authorizer=%s policies=[%s]", s.Authority, strings.Join(b, " "), s.Auth, strings.Join(p, "; "))
}

// Decision is the reference verdict with the information needed to explain it.
type Decision struct {
	Class        string
	FailedChecks []string // "authorizer#0", "block0#1", "block2#0"
	Policy       int      // index of the first matching policy, -1 if none
	AuthClosure  Set      // authority-level closure
	BlockClosure []Set
	Unsettled    string // non-empty when the procedure does not define the outcome
}

// Decide runs the decision procedure of property C04.
func Decide(s Scenario) Decision {
	d := Decision{Policy: -1}
	base := NewSet()
	for _, f := range s.Auth.Facts {
		base.Add(f)
	}
	for _, f := range s.Authority.Facts {
		base.Add(f)
	}
	rules := append(append([]Rule{}, s.Auth.Rules...), s.Authority.Rules...)
	closure, _, err := Fixpoint(base, rules)
	if err != nil {
		d.Class = EvalError
		return d
	}
	d.AuthClosure = closure
	evalCheck := func(c Check, facts Set) bool {
		for _, q := range c.Queries {
			ok, err := Satisfied(q, facts)
			if err != nil {
				// an erring query: outside the uniformly-failing fragment if it also matched
				if ok {
					d.Unsettled = "a query both matches and errs"
				}
				continue
			}
			if ok {
				return true
			}
		}
		return false
	}
	for i, c := range s.Auth.Checks {
		if !evalCheck(c, closure) {
			d.FailedChecks = append(d.FailedChecks, fmt.Sprintf("authorizer#%d", i))
		}
	}
	for i, c := range s.Authority.Checks {
		if !evalCheck(c, closure) {
			d.FailedChecks = append(d.FailedChecks, fmt.Sprintf("block0#%d", i))
		}
	}
	for i, p := range s.Policies {
		if evalCheck(Check{Queries: p.Queries}, closure) {
			d.Policy = i
			break
		}
	}
	for bi, b := range s.Blocks {
		bf := closure.Clone()
		for _, f := range b.Facts {
			bf.Add(f)
		}
		bc, _, err := Fixpoint(bf, b.Rules)
		if err != nil {
			d.Class = EvalError
			return d
		}
		d.BlockClosure = append(d.BlockClosure, bc)
		for i, c := range b.Checks {
			if !evalCheck(c, bc) {
				d.FailedChecks = append(d.FailedChecks, fmt.Sprintf("block%d#%d", bi+1, i))
			}
		}
	}
	switch {
	case len(d.FailedChecks) > 0:
		d.Class = CheckFail
	case d.Policy < 0:
		d.Class = NoMatch
	case s.Policies[d.Policy].Allow:
		d.Class = OK
	default:
		d.Class = Denied
	}
	return d
}
