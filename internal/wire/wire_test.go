package wire_test

import (
	"testing"

	biscuit "github.com/biscuit-auth/biscuit-go/v2"

	"verif/internal/hx"
	"verif/internal/refdl"
	rx "verif/internal/refexpr"
	"verif/internal/wire"
)

func TestRoundTrip(t *testing.T) {
	auth := refdl.Block{Facts: []refdl.Atom{refdl.A("right", rx.Str("f"), rx.Str("read")), refdl.A("s", rx.SetOf(rx.Int(1), rx.Int(2)), rx.Bytes([]byte{1}), rx.Date(5), rx.Bool(true))},
		Rules:  []refdl.Rule{{Head: refdl.A("h", rx.Var("x")), Body: []refdl.Atom{refdl.A("right", rx.Var("x"), rx.Str("read"))}, Exprs: [][]rx.Op{{{Kind: rx.OpValue, V: rx.Var("x")}, {Kind: rx.OpValue, V: rx.Str("f")}, {Kind: rx.OpBinary, B: rx.LessOrEqual}}}}},
		Checks: []refdl.Check{{Queries: []refdl.Rule{{Head: refdl.A("query"), Body: []refdl.Atom{refdl.A("operation", rx.Str("read"))}}}}}}
	blk := refdl.Block{Facts: []refdl.Atom{refdl.A("g", rx.Str("f"), rx.Str("new"))}}
	tok, err := hx.Token(1, 7, auth, []refdl.Block{blk})
	if err != nil {
		t.Fatal(err)
	}
	ser, _ := tok.Serialize()
	env, err := wire.DecodeEnvelope(ser)
	if err != nil {
		t.Fatal(err)
	}
	pub, _ := hx.Keys(1)
	if ok, why := wire.Valid(env, pub); !ok {
		t.Fatal(why)
	}
	pub2, _ := hx.Keys(2)
	if ok, _ := wire.Valid(env, pub2); ok {
		t.Fatal("valid under wrong root")
	}
	if string(env.Encode()) != string(ser) {
		t.Fatal("re-encoding differs")
	}
	var bl []*wire.Block
	for _, sb := range append([]wire.SignedBlock{env.Authority}, env.Blocks...) {
		b, err := wire.DecodeBlock(sb.Block)
		if err != nil {
			t.Fatal(err)
		}
		if string(b.Encode()) != string(sb.Block) {
			t.Fatalf("block re-encoding differs")
		}
		bl = append(bl, b)
	}
	res, err := wire.ResolveChain(bl)
	if err != nil {
		t.Fatal(err)
	}
	if res[0].String() != auth.String() || res[1].String() != blk.String() {
		t.Fatalf("content differs:\n%s\n%s", res[0], auth)
	}
	// harness-signed token accepted by the library
	_, priv := hx.Keys(1)
	env2 := wire.SignChain(priv, wire.EncodeChain([]refdl.Block{auth, blk}), 100, false)
	tok2, err := biscuit.Unmarshal(env2.Encode())
	if err != nil {
		t.Fatal(err)
	}
	if _, err := tok2.AuthorizerFor(biscuit.WithSingularRootPublicKey(pub)); err != nil {
		t.Fatal(err)
	}
	env3 := wire.SignChain(priv, wire.EncodeChain([]refdl.Block{auth, blk}), 100, true)
	tok3, err := biscuit.Unmarshal(env3.Encode())
	if err != nil {
		t.Fatal(err)
	}
	if _, err := tok3.AuthorizerFor(biscuit.WithSingularRootPublicKey(pub)); err != nil {
		t.Fatal(err)
	}
	if len(tok2.Code()) != len(tok.Code()) {
		t.Fatalf("harness-encoded token prints differently:\n%s\n%s", tok2.String(), tok.String())
	}
}
