// Package wire is an independent reader/writer for the Biscuit wire format:
// a minimal protobuf codec (varint, length-delimited, fixed) plus the message
// types of the published schema.proto, transcribed by hand. It shares no code
// with the library's generated pb package.
package wire

import (
	"errors"
	"fmt"
)

const (
	WTVarint  = 0
	WTFixed64 = 1
	WTBytes   = 2
	WTFixed32 = 5
)

// Field is one decoded protobuf field.
type Field struct {
	Num int
	WT  int
	V   uint64 // varint / fixed value
	B   []byte // length-delimited payload
}

var ErrTruncated = errors.New("wire: truncated message")

func readVarint(b []byte) (uint64, int, error) {
	var v uint64
	for i := 0; i < len(b) && i < 10; i++ {
		c := b[i]
		if i == 9 && c > 1 {
			return 0, 0, errors.New("wire: varint overflow")
		}
		v |= uint64(c&0x7f) << (7 * uint(i))
		if c < 0x80 {
			return v, i + 1, nil
		}
	}
	if len(b) >= 10 {
		return 0, 0, errors.New("wire: varint too long")
	}
	return 0, 0, ErrTruncated
}

// Parse splits a message into fields.
func Parse(b []byte) ([]Field, error) {
	var out []Field
	for len(b) > 0 {
		tag, n, err := readVarint(b)
		if err != nil {
			return nil, err
		}
		b = b[n:]
		num, wt := int(tag>>3), int(tag&7)
		if num == 0 || tag>>3 > 1<<29-1 {
			return nil, fmt.Errorf("wire: bad field number %d", tag>>3)
		}
		f := Field{Num: num, WT: wt}
		switch wt {
		case WTVarint:
			v, n, err := readVarint(b)
			if err != nil {
				return nil, err
			}
			f.V = v
			b = b[n:]
		case WTFixed64:
			if len(b) < 8 {
				return nil, ErrTruncated
			}
			for i := 0; i < 8; i++ {
				f.V |= uint64(b[i]) << (8 * uint(i))
			}
			b = b[8:]
		case WTFixed32:
			if len(b) < 4 {
				return nil, ErrTruncated
			}
			for i := 0; i < 4; i++ {
				f.V |= uint64(b[i]) << (8 * uint(i))
			}
			b = b[4:]
		case WTBytes:
			l, n, err := readVarint(b)
			if err != nil {
				return nil, err
			}
			b = b[n:]
			if l > uint64(len(b)) {
				return nil, ErrTruncated
			}
			f.B = b[:l:l]
			b = b[l:]
		default:
			return nil, fmt.Errorf("wire: unsupported wire type %d", wt)
		}
		out = append(out, f)
	}
	return out, nil
}

// Enc builds a message.
type Enc struct{ B []byte }

func (e *Enc) varint(v uint64) {
	for v >= 0x80 {
		e.B = append(e.B, byte(v)|0x80)
		v >>= 7
	}
	e.B = append(e.B, byte(v))
}

func (e *Enc) Varint(num int, v uint64) {
	e.varint(uint64(num)<<3 | WTVarint)
	e.varint(v)
}

func (e *Enc) Bytes(num int, b []byte) {
	e.varint(uint64(num)<<3 | WTBytes)
	e.varint(uint64(len(b)))
	e.B = append(e.B, b...)
}

func (e *Enc) String(num int, s string) { e.Bytes(num, []byte(s)) }

func (e *Enc) Msg(num int, m []byte) { e.Bytes(num, m) }
