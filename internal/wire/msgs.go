package wire

import (
	"fmt"
)

// ---- envelope -----------------------------------------------------------------

type SignedBlock struct {
	Block  []byte
	HasKey bool    // nextKey present
	Alg    *uint64 // algorithm field of nextKey (nil = absent)
	Key    []byte
	Sig    []byte
}

type Proof struct {
	Present bool
	Secret  []byte // nextSecret (nil = absent; empty but present = []byte{})
	Final   []byte // finalSignature
}

type Envelope struct {
	RootKeyID *uint32
	HasAuth   bool
	Authority SignedBlock
	Blocks    []SignedBlock
	Proof     Proof
}

func decodeSigned(b []byte) (SignedBlock, error) {
	var s SignedBlock
	fs, err := Parse(b)
	if err != nil {
		return s, err
	}
	for _, f := range fs {
		switch {
		case f.Num == 1 && f.WT == WTBytes:
			s.Block = f.B
		case f.Num == 2 && f.WT == WTBytes:
			s.HasKey = true
			kf, err := Parse(f.B)
			if err != nil {
				return s, err
			}
			for _, k := range kf {
				switch {
				case k.Num == 1 && k.WT == WTVarint:
					v := k.V
					s.Alg = &v
				case k.Num == 2 && k.WT == WTBytes:
					s.Key = k.B
				}
			}
		case f.Num == 3 && f.WT == WTBytes:
			s.Sig = f.B
		}
	}
	return s, nil
}

// DecodeEnvelope decodes a serialized token (outer message only).
func DecodeEnvelope(b []byte) (*Envelope, error) {
	fs, err := Parse(b)
	if err != nil {
		return nil, err
	}
	e := &Envelope{}
	for _, f := range fs {
		switch {
		case f.Num == 1 && f.WT == WTVarint:
			v := uint32(f.V)
			e.RootKeyID = &v
		case f.Num == 2 && f.WT == WTBytes:
			s, err := decodeSigned(f.B)
			if err != nil {
				return nil, err
			}
			e.HasAuth = true
			e.Authority = s
		case f.Num == 3 && f.WT == WTBytes:
			s, err := decodeSigned(f.B)
			if err != nil {
				return nil, err
			}
			e.Blocks = append(e.Blocks, s)
		case f.Num == 4 && f.WT == WTBytes:
			e.Proof.Present = true
			pf, err := Parse(f.B)
			if err != nil {
				return nil, err
			}
			for _, p := range pf {
				switch {
				case p.Num == 1 && p.WT == WTBytes:
					// oneof: the last one set wins
					e.Proof.Secret = append([]byte{}, p.B...)
					e.Proof.Final = nil
				case p.Num == 2 && p.WT == WTBytes:
					e.Proof.Final = append([]byte{}, p.B...)
					e.Proof.Secret = nil
				}
			}
		}
	}
	return e, nil
}

func (s SignedBlock) encode() []byte {
	var e Enc
	e.Bytes(1, s.Block)
	if s.HasKey {
		var k Enc
		if s.Alg != nil {
			k.Varint(1, *s.Alg)
		}
		if s.Key != nil {
			k.Bytes(2, s.Key)
		}
		e.Msg(2, k.B)
	}
	if s.Sig != nil {
		e.Bytes(3, s.Sig)
	}
	return e.B
}

// Encode serializes the envelope canonically (field order of the schema).
func (e *Envelope) Encode() []byte {
	var out Enc
	if e.RootKeyID != nil {
		out.Varint(1, uint64(*e.RootKeyID))
	}
	if e.HasAuth {
		out.Msg(2, e.Authority.encode())
	}
	for _, b := range e.Blocks {
		out.Msg(3, b.encode())
	}
	if e.Proof.Present {
		var p Enc
		if e.Proof.Secret != nil {
			p.Bytes(1, e.Proof.Secret)
		}
		if e.Proof.Final != nil {
			p.Bytes(2, e.Proof.Final)
		}
		out.Msg(4, p.B)
	}
	return out.B
}

// Clone deep-copies an envelope.
func (e *Envelope) Clone() *Envelope {
	c := *e
	if e.RootKeyID != nil {
		v := *e.RootKeyID
		c.RootKeyID = &v
	}
	cp := func(s SignedBlock) SignedBlock {
		n := s
		n.Block = append([]byte(nil), s.Block...)
		if s.Key != nil {
			n.Key = append([]byte{}, s.Key...)
		}
		if s.Sig != nil {
			n.Sig = append([]byte{}, s.Sig...)
		}
		if s.Alg != nil {
			a := *s.Alg
			n.Alg = &a
		}
		return n
	}
	c.Authority = cp(e.Authority)
	c.Blocks = nil
	for _, b := range e.Blocks {
		c.Blocks = append(c.Blocks, cp(b))
	}
	if e.Proof.Secret != nil {
		c.Proof.Secret = append([]byte{}, e.Proof.Secret...)
	}
	if e.Proof.Final != nil {
		c.Proof.Final = append([]byte{}, e.Proof.Final...)
	}
	return &c
}

// ---- block content --------------------------------------------------------------

type TermKind int

const (
	TEmpty TermKind = iota // no content set (malformed)
	TVariable
	TInteger
	TString
	TDate
	TBytes
	TBool
	TSet
)

type Term struct {
	Kind TermKind
	U    uint64 // variable / string / date
	I    int64
	B    []byte
	Bo   bool
	Set  []Term
}

type Pred struct {
	HasName bool
	Name    uint64
	Terms   []Term
}

type OpKind int

const (
	OEmpty OpKind = iota
	OValue
	OUnary
	OBinary
)

type Op struct {
	Kind    OpKind
	Term    Term
	HasCode bool
	Code    uint64
}

type Rule struct {
	HasHead bool
	Head    Pred
	Body    []Pred
	Exprs   [][]Op
}

type Check struct{ Queries []Rule }

type Block struct {
	Symbols []string
	Context *string
	Version *uint32
	Facts   []Pred // FactV2.predicate
	Rules   []Rule
	Checks  []Check
}

func decodeTerm(b []byte) (Term, error) {
	var t Term
	fs, err := Parse(b)
	if err != nil {
		return t, err
	}
	for _, f := range fs {
		switch {
		case f.Num == 1 && f.WT == WTVarint:
			t = Term{Kind: TVariable, U: uint64(uint32(f.V))}
		case f.Num == 2 && f.WT == WTVarint:
			t = Term{Kind: TInteger, I: int64(f.V)}
		case f.Num == 3 && f.WT == WTVarint:
			t = Term{Kind: TString, U: f.V}
		case f.Num == 4 && f.WT == WTVarint:
			t = Term{Kind: TDate, U: f.V}
		case f.Num == 5 && f.WT == WTBytes:
			t = Term{Kind: TBytes, B: append([]byte{}, f.B...)}
		case f.Num == 6 && f.WT == WTVarint:
			t = Term{Kind: TBool, Bo: f.V != 0}
		case f.Num == 7 && f.WT == WTBytes:
			t = Term{Kind: TSet}
			sf, err := Parse(f.B)
			if err != nil {
				return t, err
			}
			for _, s := range sf {
				if s.Num == 1 && s.WT == WTBytes {
					e, err := decodeTerm(s.B)
					if err != nil {
						return t, err
					}
					t.Set = append(t.Set, e)
				}
			}
		}
	}
	return t, nil
}

func decodePred(b []byte) (Pred, error) {
	var p Pred
	fs, err := Parse(b)
	if err != nil {
		return p, err
	}
	for _, f := range fs {
		switch {
		case f.Num == 1 && f.WT == WTVarint:
			p.HasName = true
			p.Name = f.V
		case f.Num == 2 && f.WT == WTBytes:
			t, err := decodeTerm(f.B)
			if err != nil {
				return p, err
			}
			p.Terms = append(p.Terms, t)
		}
	}
	return p, nil
}

func decodeOp(b []byte) (Op, error) {
	var o Op
	fs, err := Parse(b)
	if err != nil {
		return o, err
	}
	code := func(b []byte) (bool, uint64, error) {
		kf, err := Parse(b)
		if err != nil {
			return false, 0, err
		}
		has, v := false, uint64(0)
		for _, k := range kf {
			if k.Num == 1 && k.WT == WTVarint {
				has, v = true, k.V
			}
		}
		return has, v, nil
	}
	for _, f := range fs {
		if f.WT != WTBytes {
			continue
		}
		switch f.Num {
		case 1:
			t, err := decodeTerm(f.B)
			if err != nil {
				return o, err
			}
			o = Op{Kind: OValue, Term: t}
		case 2:
			has, v, err := code(f.B)
			if err != nil {
				return o, err
			}
			o = Op{Kind: OUnary, HasCode: has, Code: v}
		case 3:
			has, v, err := code(f.B)
			if err != nil {
				return o, err
			}
			o = Op{Kind: OBinary, HasCode: has, Code: v}
		}
	}
	return o, nil
}

func decodeRule(b []byte) (Rule, error) {
	var r Rule
	fs, err := Parse(b)
	if err != nil {
		return r, err
	}
	for _, f := range fs {
		if f.WT != WTBytes {
			continue
		}
		switch f.Num {
		case 1:
			p, err := decodePred(f.B)
			if err != nil {
				return r, err
			}
			r.HasHead = true
			r.Head = p
		case 2:
			p, err := decodePred(f.B)
			if err != nil {
				return r, err
			}
			r.Body = append(r.Body, p)
		case 3:
			ef, err := Parse(f.B)
			if err != nil {
				return r, err
			}
			ops := []Op{}
			for _, e := range ef {
				if e.Num == 1 && e.WT == WTBytes {
					o, err := decodeOp(e.B)
					if err != nil {
						return r, err
					}
					ops = append(ops, o)
				}
			}
			r.Exprs = append(r.Exprs, ops)
		}
	}
	return r, nil
}

func decodeCheck(b []byte) (Check, error) {
	var c Check
	fs, err := Parse(b)
	if err != nil {
		return c, err
	}
	for _, f := range fs {
		if f.Num == 1 && f.WT == WTBytes {
			r, err := decodeRule(f.B)
			if err != nil {
				return c, err
			}
			c.Queries = append(c.Queries, r)
		}
	}
	return c, nil
}

// DecodeBlock decodes the bytes of one block.
func DecodeBlock(b []byte) (*Block, error) {
	fs, err := Parse(b)
	if err != nil {
		return nil, err
	}
	blk := &Block{}
	for _, f := range fs {
		switch {
		case f.Num == 1 && f.WT == WTBytes:
			blk.Symbols = append(blk.Symbols, string(f.B))
		case f.Num == 2 && f.WT == WTBytes:
			s := string(f.B)
			blk.Context = &s
		case f.Num == 3 && f.WT == WTVarint:
			v := uint32(f.V)
			blk.Version = &v
		case f.Num == 4 && f.WT == WTBytes:
			ff, err := Parse(f.B)
			if err != nil {
				return nil, err
			}
			var p Pred
			for _, x := range ff {
				if x.Num == 1 && x.WT == WTBytes {
					p, err = decodePred(x.B)
					if err != nil {
						return nil, err
					}
				}
			}
			blk.Facts = append(blk.Facts, p)
		case f.Num == 5 && f.WT == WTBytes:
			r, err := decodeRule(f.B)
			if err != nil {
				return nil, err
			}
			blk.Rules = append(blk.Rules, r)
		case f.Num == 6 && f.WT == WTBytes:
			c, err := decodeCheck(f.B)
			if err != nil {
				return nil, err
			}
			blk.Checks = append(blk.Checks, c)
		}
	}
	return blk, nil
}

func (t Term) encode() []byte {
	var e Enc
	switch t.Kind {
	case TVariable:
		e.Varint(1, t.U)
	case TInteger:
		e.Varint(2, uint64(t.I))
	case TString:
		e.Varint(3, t.U)
	case TDate:
		e.Varint(4, t.U)
	case TBytes:
		e.Bytes(5, t.B)
	case TBool:
		v := uint64(0)
		if t.Bo {
			v = 1
		}
		e.Varint(6, v)
	case TSet:
		var s Enc
		for _, x := range t.Set {
			s.Msg(1, x.encode())
		}
		e.Msg(7, s.B)
	}
	return e.B
}

func (p Pred) encode() []byte {
	var e Enc
	if p.HasName {
		e.Varint(1, p.Name)
	}
	for _, t := range p.Terms {
		e.Msg(2, t.encode())
	}
	return e.B
}

func (o Op) encode() []byte {
	var e Enc
	code := func() []byte {
		var k Enc
		if o.HasCode {
			k.Varint(1, o.Code)
		}
		return k.B
	}
	switch o.Kind {
	case OValue:
		e.Msg(1, o.Term.encode())
	case OUnary:
		e.Msg(2, code())
	case OBinary:
		e.Msg(3, code())
	}
	return e.B
}

func (r Rule) encode() []byte {
	var e Enc
	if r.HasHead {
		e.Msg(1, r.Head.encode())
	}
	for _, p := range r.Body {
		e.Msg(2, p.encode())
	}
	for _, ops := range r.Exprs {
		var x Enc
		for _, o := range ops {
			x.Msg(1, o.encode())
		}
		e.Msg(3, x.B)
	}
	return e.B
}

func (c Check) encode() []byte {
	var e Enc
	for _, q := range c.Queries {
		e.Msg(1, q.encode())
	}
	return e.B
}

// Encode serializes a block canonically.
func (b *Block) Encode() []byte {
	var e Enc
	for _, s := range b.Symbols {
		e.String(1, s)
	}
	if b.Context != nil {
		e.String(2, *b.Context)
	}
	if b.Version != nil {
		e.Varint(3, uint64(*b.Version))
	}
	for _, f := range b.Facts {
		var x Enc
		x.Msg(1, f.encode())
		e.Msg(4, x.B)
	}
	for _, r := range b.Rules {
		e.Msg(5, r.encode())
	}
	for _, c := range b.Checks {
		e.Msg(6, c.encode())
	}
	return e.B
}

// ---- authorizer snapshot ----------------------------------------------------------

type PolicyMsg struct {
	Queries []Rule
	HasKind bool
	Kind    uint64 // 0 allow, 1 deny
}

type Policies struct {
	Symbols  []string
	Version  *uint32
	Facts    []Pred
	Rules    []Rule
	Checks   []Check
	Policies []PolicyMsg
}

func DecodePolicies(b []byte) (*Policies, error) {
	fs, err := Parse(b)
	if err != nil {
		return nil, err
	}
	p := &Policies{}
	for _, f := range fs {
		switch {
		case f.Num == 1 && f.WT == WTBytes:
			p.Symbols = append(p.Symbols, string(f.B))
		case f.Num == 2 && f.WT == WTVarint:
			v := uint32(f.V)
			p.Version = &v
		case f.Num == 3 && f.WT == WTBytes:
			ff, err := Parse(f.B)
			if err != nil {
				return nil, err
			}
			var pr Pred
			for _, x := range ff {
				if x.Num == 1 && x.WT == WTBytes {
					pr, err = decodePred(x.B)
					if err != nil {
						return nil, err
					}
				}
			}
			p.Facts = append(p.Facts, pr)
		case f.Num == 4 && f.WT == WTBytes:
			r, err := decodeRule(f.B)
			if err != nil {
				return nil, err
			}
			p.Rules = append(p.Rules, r)
		case f.Num == 5 && f.WT == WTBytes:
			c, err := decodeCheck(f.B)
			if err != nil {
				return nil, err
			}
			p.Checks = append(p.Checks, c)
		case f.Num == 6 && f.WT == WTBytes:
			pf, err := Parse(f.B)
			if err != nil {
				return nil, err
			}
			var pm PolicyMsg
			for _, x := range pf {
				switch {
				case x.Num == 1 && x.WT == WTBytes:
					r, err := decodeRule(x.B)
					if err != nil {
						return nil, err
					}
					pm.Queries = append(pm.Queries, r)
				case x.Num == 2 && x.WT == WTVarint:
					pm.HasKind = true
					pm.Kind = x.V
				}
			}
			p.Policies = append(p.Policies, pm)
		}
	}
	return p, nil
}

func (p *Policies) Encode() []byte {
	var e Enc
	for _, s := range p.Symbols {
		e.String(1, s)
	}
	if p.Version != nil {
		e.Varint(2, uint64(*p.Version))
	}
	for _, f := range p.Facts {
		var x Enc
		x.Msg(1, f.encode())
		e.Msg(3, x.B)
	}
	for _, r := range p.Rules {
		e.Msg(4, r.encode())
	}
	for _, c := range p.Checks {
		e.Msg(5, c.encode())
	}
	for _, pm := range p.Policies {
		var x Enc
		for _, q := range pm.Queries {
			x.Msg(1, q.encode())
		}
		if pm.HasKind {
			x.Varint(2, pm.Kind)
		}
		e.Msg(6, x.B)
	}
	return e.B
}

func (k TermKind) String() string {
	return [...]string{"empty", "variable", "integer", "string", "date", "bytes", "bool", "set"}[k]
}

var _ = fmt.Sprintf
