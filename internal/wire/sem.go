package wire

import (
	"bytes"
	"crypto/ed25519"
	"encoding/binary"
	"fmt"

	"verif/internal/refdl"
	rx "verif/internal/refexpr"
)

// DefaultSymbols: the 28 default symbols of the published v2 specification,
// indexes 0..27; block tables start at 1024.
var DefaultSymbols = []string{
	"read", "write", "resource", "operation", "right", "time", "role", "owner", "tenant", "namespace",
	"user", "team", "service", "admin", "email", "group", "member", "ip_address", "client", "client_ip",
	"domain", "path", "version", "cluster", "node", "hostname", "nonce", "query",
}

const Offset = 1024

// Wire numbering of operators (published schema.proto).
var binaryCodes = map[rx.Binary]uint64{
	rx.LessThan: 0, rx.GreaterThan: 1, rx.LessOrEqual: 2, rx.GreaterOrEqual: 3, rx.Equal: 4, rx.Contains: 5,
	rx.Prefix: 6, rx.Suffix: 7, rx.Regex: 8, rx.Add: 9, rx.Sub: 10, rx.Mul: 11, rx.Div: 12, rx.And: 13, rx.Or: 14,
	rx.Intersection: 15, rx.Union: 16,
}

var unaryCodes = map[rx.Unary]uint64{rx.Negate: 0, rx.Parens: 1, rx.Length: 2}

func binaryOf(code uint64) (rx.Binary, bool) {
	for k, v := range binaryCodes {
		if v == code {
			return k, true
		}
	}
	return 0, false
}

func unaryOf(code uint64) (rx.Unary, bool) {
	for k, v := range unaryCodes {
		if v == code {
			return k, true
		}
	}
	return 0, false
}

// Table is the chain-level symbol table built by the published rules.
type Table struct{ Syms []string }

func (t *Table) Lookup(i uint64) (string, bool) {
	if i < Offset {
		if i < uint64(len(DefaultSymbols)) {
			return DefaultSymbols[i], true
		}
		return "", false
	}
	if i-Offset < uint64(len(t.Syms)) {
		return t.Syms[i-Offset], true
	}
	return "", false
}

func (t *Table) Index(s string) (uint64, bool) {
	for i, d := range DefaultSymbols {
		if d == s {
			return uint64(i), true
		}
	}
	for i, d := range t.Syms {
		if d == s {
			return uint64(Offset + i), true
		}
	}
	return 0, false
}

// Intern returns the index of s, adding it when new (reporting whether it was added).
func (t *Table) Intern(s string) (uint64, bool) {
	if i, ok := t.Index(s); ok {
		return i, false
	}
	t.Syms = append(t.Syms, s)
	return uint64(Offset + len(t.Syms) - 1), true
}

func (t *Table) term(x Term) (rx.Val, error) {
	switch x.Kind {
	case TVariable:
		s, ok := t.Lookup(x.U)
		if !ok {
			return rx.Val{}, fmt.Errorf("variable index %d not resolvable", x.U)
		}
		return rx.Var(s), nil
	case TInteger:
		return rx.Int(x.I), nil
	case TString:
		s, ok := t.Lookup(x.U)
		if !ok {
			return rx.Val{}, fmt.Errorf("string index %d not resolvable", x.U)
		}
		return rx.Str(s), nil
	case TDate:
		return rx.Date(x.U), nil
	case TBytes:
		return rx.Bytes(x.B), nil
	case TBool:
		return rx.Bool(x.Bo), nil
	case TSet:
		var vs []rx.Val
		for _, e := range x.Set {
			v, err := t.term(e)
			if err != nil {
				return rx.Val{}, err
			}
			vs = append(vs, v)
		}
		return rx.SetOf(vs...), nil
	}
	return rx.Val{}, fmt.Errorf("term without content")
}

func (t *Table) pred(p Pred) (refdl.Atom, error) {
	if !p.HasName {
		return refdl.Atom{}, fmt.Errorf("predicate without name")
	}
	n, ok := t.Lookup(p.Name)
	if !ok {
		return refdl.Atom{}, fmt.Errorf("predicate name index %d not resolvable", p.Name)
	}
	a := refdl.Atom{Name: n}
	for _, x := range p.Terms {
		v, err := t.term(x)
		if err != nil {
			return a, err
		}
		a.Terms = append(a.Terms, v)
	}
	return a, nil
}

func (t *Table) rule(r Rule) (refdl.Rule, error) {
	var out refdl.Rule
	if !r.HasHead {
		return out, fmt.Errorf("rule without head")
	}
	h, err := t.pred(r.Head)
	if err != nil {
		return out, err
	}
	out.Head = h
	for _, b := range r.Body {
		a, err := t.pred(b)
		if err != nil {
			return out, err
		}
		out.Body = append(out.Body, a)
	}
	for _, ops := range r.Exprs {
		var e []rx.Op
		for _, o := range ops {
			switch o.Kind {
			case OValue:
				v, err := t.term(o.Term)
				if err != nil {
					return out, err
				}
				e = append(e, rx.Op{Kind: rx.OpValue, V: v})
			case OUnary:
				u, ok := unaryOf(o.Code)
				if !ok || !o.HasCode {
					return out, fmt.Errorf("unknown unary operator %d", o.Code)
				}
				e = append(e, rx.Op{Kind: rx.OpUnary, U: u})
			case OBinary:
				b, ok := binaryOf(o.Code)
				if !ok || !o.HasCode {
					return out, fmt.Errorf("unknown binary operator %d", o.Code)
				}
				e = append(e, rx.Op{Kind: rx.OpBinary, B: b})
			default:
				return out, fmt.Errorf("empty op")
			}
		}
		out.Exprs = append(out.Exprs, e)
	}
	return out, nil
}

// ResolveChain turns the decoded blocks of a token into harness-level blocks,
// enforcing the symbol rules of the statement: each block's table holds only
// symbols new to the chain (no default symbol, nothing declared earlier), and
// every index is resolvable from the block's own and earlier tables.
func ResolveChain(blocks []*Block) ([]refdl.Block, error) {
	tab := &Table{}
	var out []refdl.Block
	for bi, b := range blocks {
		for _, s := range b.Symbols {
			if _, ok := tab.Index(s); ok {
				return nil, fmt.Errorf("block %d declares symbol %q that is a default symbol or was declared before", bi, s)
			}
			tab.Syms = append(tab.Syms, s)
		}
		if b.Version == nil || *b.Version != 3 {
			return nil, fmt.Errorf("block %d: version is not 3", bi)
		}
		var rb refdl.Block
		if b.Context != nil {
			rb.Context = *b.Context
		}
		for _, f := range b.Facts {
			a, err := tab.pred(f)
			if err != nil {
				return nil, fmt.Errorf("block %d: %v", bi, err)
			}
			rb.Facts = append(rb.Facts, a)
		}
		for _, r := range b.Rules {
			rr, err := tab.rule(r)
			if err != nil {
				return nil, fmt.Errorf("block %d: %v", bi, err)
			}
			rb.Rules = append(rb.Rules, rr)
		}
		for _, c := range b.Checks {
			var rc refdl.Check
			for _, q := range c.Queries {
				rr, err := tab.rule(q)
				if err != nil {
					return nil, fmt.Errorf("block %d: %v", bi, err)
				}
				rc.Queries = append(rc.Queries, rr)
			}
			rb.Checks = append(rb.Checks, rc)
		}
		out = append(out, rb)
	}
	return out, nil
}

// ---- encoding from harness level ---------------------------------------------------

type blockEncoder struct {
	tab   *Table
	added []string
}

func (e *blockEncoder) sym(s string) uint64 {
	i, added := e.tab.Intern(s)
	if added {
		e.added = append(e.added, s)
	}
	return i
}

func (e *blockEncoder) term(v rx.Val) Term {
	switch v.K {
	case rx.KInt:
		return Term{Kind: TInteger, I: v.I}
	case rx.KStr:
		return Term{Kind: TString, U: e.sym(v.S)}
	case rx.KDate:
		return Term{Kind: TDate, U: v.D}
	case rx.KBytes:
		return Term{Kind: TBytes, B: v.B}
	case rx.KBool:
		return Term{Kind: TBool, Bo: v.Bo}
	case rx.KVar:
		return Term{Kind: TVariable, U: e.sym(v.S)}
	case rx.KSet:
		t := Term{Kind: TSet}
		for _, x := range v.Set {
			t.Set = append(t.Set, e.term(x))
		}
		return t
	}
	return Term{}
}

func (e *blockEncoder) pred(a refdl.Atom) Pred {
	p := Pred{HasName: true, Name: e.sym(a.Name)}
	for _, t := range a.Terms {
		p.Terms = append(p.Terms, e.term(t))
	}
	return p
}

func (e *blockEncoder) rule(r refdl.Rule) Rule {
	out := Rule{HasHead: true, Head: e.pred(r.Head)}
	for _, b := range r.Body {
		out.Body = append(out.Body, e.pred(b))
	}
	for _, ex := range r.Exprs {
		ops := []Op{}
		for _, o := range ex {
			switch o.Kind {
			case rx.OpValue:
				ops = append(ops, Op{Kind: OValue, Term: e.term(o.V)})
			case rx.OpUnary:
				ops = append(ops, Op{Kind: OUnary, HasCode: true, Code: unaryCodes[o.U]})
			case rx.OpBinary:
				ops = append(ops, Op{Kind: OBinary, HasCode: true, Code: binaryCodes[o.B]})
			}
		}
		out.Exprs = append(out.Exprs, ops)
	}
	return out
}

// EncodeBlock converts a harness block to a wire block, interning new symbols
// into tab (which carries the symbols of the earlier blocks of the chain).
func EncodeBlock(tab *Table, b refdl.Block) *Block {
	e := &blockEncoder{tab: tab}
	v := uint32(3)
	ctx := b.Context
	out := &Block{Version: &v, Context: &ctx}
	for _, f := range b.Facts {
		out.Facts = append(out.Facts, e.pred(f))
	}
	for _, r := range b.Rules {
		out.Rules = append(out.Rules, e.rule(r))
	}
	for _, c := range b.Checks {
		var wc Check
		for _, q := range c.Queries {
			wc.Queries = append(wc.Queries, e.rule(q))
		}
		out.Checks = append(out.Checks, wc)
	}
	out.Symbols = e.added
	return out
}

// ---- signatures ------------------------------------------------------------------------

func algBytes(alg uint64) []byte {
	b := make([]byte, 4)
	binary.LittleEndian.PutUint32(b, uint32(alg))
	return b
}

// BlockPayload is what a block signature covers: block ‖ alg(u32 LE) ‖ next key.
func BlockPayload(s SignedBlock) []byte {
	alg := uint64(0)
	if s.Alg != nil {
		alg = *s.Alg
	}
	var p []byte
	p = append(p, s.Block...)
	p = append(p, algBytes(alg)...)
	p = append(p, s.Key...)
	return p
}

// SealPayload is what the final signature covers: last block ‖ alg ‖ key ‖ signature.
func SealPayload(last SignedBlock) []byte {
	return append(BlockPayload(last), last.Sig...)
}

// Valid is the chain-validity predicate of the specification (property C01).
func Valid(e *Envelope, root ed25519.PublicKey) (bool, string) {
	if !e.HasAuth || !e.Proof.Present {
		return false, "missing authority or proof"
	}
	all := append([]SignedBlock{e.Authority}, e.Blocks...)
	cur := root
	for i, b := range all {
		if !b.HasKey || b.Alg == nil || *b.Alg != 0 {
			return false, fmt.Sprintf("block %d: missing key or algorithm is not Ed25519", i)
		}
		if len(b.Key) != ed25519.PublicKeySize || len(b.Sig) != ed25519.SignatureSize || len(cur) != ed25519.PublicKeySize {
			return false, fmt.Sprintf("block %d: key or signature size", i)
		}
		if !ed25519.Verify(cur, BlockPayload(b), b.Sig) {
			return false, fmt.Sprintf("block %d: signature does not verify under the expected key", i)
		}
		cur = b.Key
	}
	last := all[len(all)-1]
	switch {
	case e.Proof.Secret != nil:
		if len(e.Proof.Secret) != ed25519.SeedSize {
			return false, "proof secret size"
		}
		pub := ed25519.NewKeyFromSeed(e.Proof.Secret).Public().(ed25519.PublicKey)
		if !bytes.Equal(pub, cur) {
			return false, "proof secret does not match the last announced key"
		}
	case e.Proof.Final != nil:
		if len(e.Proof.Final) != ed25519.SignatureSize || !ed25519.Verify(cur, SealPayload(last), e.Proof.Final) {
			return false, "seal signature does not verify under the last announced key"
		}
	default:
		return false, "empty proof"
	}
	return true, ""
}

// SignBlock produces a signed block under priv announcing next.
func SignBlock(priv ed25519.PrivateKey, block []byte, next ed25519.PublicKey) SignedBlock {
	alg := uint64(0)
	s := SignedBlock{Block: block, HasKey: true, Alg: &alg, Key: append([]byte{}, next...)}
	s.Sig = ed25519.Sign(priv, BlockPayload(s))
	return s
}

// SeedKey derives a key pair from a small integer (harness keys).
func SeedKey(n int) (ed25519.PublicKey, ed25519.PrivateKey) {
	seed := make([]byte, 32)
	for i := range seed {
		seed[i] = byte(n*31 + i*7 + 1)
	}
	priv := ed25519.NewKeyFromSeed(seed)
	return priv.Public().(ed25519.PublicKey), priv
}

// SignChain signs the given block byte strings as a token under root, with
// per-block keys derived from keyBase, unsealed (proof = last secret) or sealed.
func SignChain(root ed25519.PrivateKey, blocks [][]byte, keyBase int, sealed bool) *Envelope {
	e := &Envelope{HasAuth: true}
	cur := root
	var lastPriv ed25519.PrivateKey
	for i, b := range blocks {
		pub, priv := SeedKey(keyBase + i)
		sb := SignBlock(cur, b, pub)
		if i == 0 {
			e.Authority = sb
		} else {
			e.Blocks = append(e.Blocks, sb)
		}
		cur, lastPriv = priv, priv
	}
	e.Proof.Present = true
	if sealed {
		last := e.Authority
		if len(e.Blocks) > 0 {
			last = e.Blocks[len(e.Blocks)-1]
		}
		e.Proof.Final = ed25519.Sign(lastPriv, SealPayload(last))
	} else {
		e.Proof.Secret = lastPriv.Seed()
	}
	return e
}

// EncodeChain encodes harness blocks into block byte strings with correct symbol tables.
func EncodeChain(blocks []refdl.Block) [][]byte {
	tab := &Table{}
	var out [][]byte
	for _, b := range blocks {
		out = append(out, EncodeBlock(tab, b).Encode())
	}
	return out
}
