// Package alpha holds the small Datalog alphabets shared by several checks
// ("DL-small" of DESIGN §4).
package alpha

import (
	"verif/internal/refdl"
	rx "verif/internal/refexpr"
)

// Domain instantiates the two constants c0, c1 of DL-small.
type Domain struct {
	Name   string
	C0, C1 rx.Val
}

// Domains: one per term type, plus mixed domains whose constants share a
// payload but differ in type (they must never unify), plus presentations of
// one set in two orders (they must always unify).
var Domains = []Domain{
	{"int", rx.Int(0), rx.Int(1)},
	{"str", rx.Str("a"), rx.Str("b")},
	{"defstr", rx.Str("read"), rx.Str("write")},
	{"date", rx.Date(0), rx.Date(1)},
	{"bytes", rx.Bytes([]byte{0}), rx.Bytes([]byte{0, 1})},
	{"bool", rx.Bool(true), rx.Bool(false)},
	{"set", rx.SetOf(rx.Int(1)), rx.SetOf(rx.Int(1), rx.Int(2))},
	{"setbytes", rx.SetOf(rx.Bytes([]byte{0})), rx.SetOf(rx.Bytes([]byte{0}), rx.Bytes([]byte{1}))},
	{"setorder", rx.SetOf(rx.Int(1), rx.Int(2)), rx.SetOf(rx.Int(2), rx.Int(1))},
	{"mix-int-date", rx.Int(1), rx.Date(1)},
	{"mix-int-str1024", rx.Int(1024), rx.Str("a")}, // "a" is the first table symbol: index 1024
	{"mix-bool-int", rx.Bool(true), rx.Int(1)},
	{"mix-bytes-str", rx.Bytes([]byte("a")), rx.Str("a")},
	{"mix-set-int", rx.SetOf(rx.Int(1)), rx.Int(1)},
	{"mix-str-defstr0", rx.Str("read"), rx.Int(0)}, // "read" is default symbol 0
}

var X, Y, Z = rx.Var("x"), rx.Var("y"), rx.Var("z")

// Atoms returns the 25 body atoms: p(t) q(t) r(t,t') z() for t in {x,y,c0,c1}.
func Atoms(d Domain) []refdl.Atom {
	ts := []rx.Val{X, Y, d.C0, d.C1}
	var out []refdl.Atom
	for _, t := range ts {
		out = append(out, refdl.A("p", t))
	}
	for _, t := range ts {
		out = append(out, refdl.A("q", t))
	}
	for _, t := range ts {
		for _, u := range ts {
			out = append(out, refdl.A("r", t, u))
		}
	}
	out = append(out, refdl.A("z"))
	// the same names with another arity: r/1 against the r/2 facts, p/2 against the p/1 facts
	out = append(out, refdl.A("r", X), refdl.A("r", d.C0), refdl.A("p", X, Y), refdl.A("p", d.C0, X))
	return out
}

// Atoms3 is the 8-atom sub-alphabet for 3-atom bodies (odometer carries).
func Atoms3(d Domain) []refdl.Atom {
	return []refdl.Atom{
		refdl.A("p", X), refdl.A("q", X), refdl.A("q", Y), refdl.A("r", X, Y), refdl.A("r", Y, Z), refdl.A("r", X, X), refdl.A("p", d.C0), refdl.A("z"),
	}
}

// Universe: the ground facts p(c) q(c) r(c,c') z(), distinct by value.
func Universe(d Domain) []refdl.Atom {
	cs := []rx.Val{d.C0, d.C1}
	var all []refdl.Atom
	for _, c := range cs {
		all = append(all, refdl.A("p", c))
	}
	for _, c := range cs {
		all = append(all, refdl.A("q", c))
	}
	for _, c := range cs {
		for _, e := range cs {
			all = append(all, refdl.A("r", c, e))
		}
	}
	all = append(all, refdl.A("z"))
	seen := map[string]bool{}
	var out []refdl.Atom
	for _, a := range all {
		if !seen[a.Key()] {
			seen[a.Key()] = true
			out = append(out, a)
		}
	}
	return out
}

// OrderedLists returns every ordered list of at most max distinct elements of u
// (as index lists), shortest first.
func OrderedLists(n, max int) [][]int {
	out := [][]int{{}}
	var rec func(cur []int, used uint)
	rec = func(cur []int, used uint) {
		if len(cur) == max {
			return
		}
		for i := 0; i < n; i++ {
			if used&(1<<uint(i)) != 0 {
				continue
			}
			nxt := append(append([]int{}, cur...), i)
			out = append(out, nxt)
			rec(nxt, used|1<<uint(i))
		}
	}
	rec(nil, 0)
	// shortest first
	var sorted [][]int
	for l := 0; l <= max; l++ {
		for _, x := range out {
			if len(x) == l {
				sorted = append(sorted, x)
			}
		}
	}
	return sorted
}

// BodyVars lists the variables of a body in order of first occurrence.
func BodyVars(body []refdl.Atom) []string {
	var out []string
	seen := map[string]bool{}
	for _, a := range body {
		for _, v := range a.Vars() {
			if !seen[v] {
				seen[v] = true
				out = append(out, v)
			}
		}
	}
	return out
}

// Heads returns the head shapes for a body: h(), h(all body variables),
// h(c0, first variable), and h(first variable twice).
func Heads(d Domain, body []refdl.Atom) []refdl.Atom {
	vs := BodyVars(body)
	out := []refdl.Atom{refdl.A("h")}
	if len(vs) > 0 {
		var ts []rx.Val
		for _, v := range vs {
			ts = append(ts, rx.Var(v))
		}
		out = append(out, refdl.A("h", ts...))
		out = append(out, refdl.A("h", d.C0, rx.Var(vs[len(vs)-1])))
	}
	// the first body atom itself: every head instance is a fact that already exists
	out = append(out, body[0])
	return out
}

// EqExpr is the expression $v == c.
func EqExpr(v string, c rx.Val) []rx.Op {
	return []rx.Op{{Kind: rx.OpValue, V: rx.Var(v)}, {Kind: rx.OpValue, V: c}, {Kind: rx.OpBinary, B: rx.Equal}}
}

// EqVars is the expression $a == $b.
func EqVars(a, b string) []rx.Op {
	return []rx.Op{{Kind: rx.OpValue, V: rx.Var(a)}, {Kind: rx.OpValue, V: rx.Var(b)}, {Kind: rx.OpBinary, B: rx.Equal}}
}
