// Package c19ops defines the operation alphabet of property C19 (operations
// several goroutines may perform on one shared token, on shared parsed values
// and on a shared parser) once, for its three users: the schedule exploration
// and the footprint pass (Engine A binary) and the free-running race-detector
// pass (plain `go test -race` against the unmodified library).
package c19ops

import (
	"crypto/ed25519"
	"fmt"
	"sort"
	"strings"

	biscuit "github.com/biscuit-auth/biscuit-go/v2"
	"github.com/biscuit-auth/biscuit-go/v2/parser"

	"verif/internal/hx"
	"verif/internal/refdl"
	rx "verif/internal/refexpr"
)

// Shared is what the goroutines share.
type Shared struct {
	Tok    *biscuit.Biscuit
	PBlock biscuit.ParsedBlock
	PAuth  biscuit.ParsedAuthorizer
	Parser parser.Parser
	Pub    ed25519.PublicKey
}

// Shape describes one shared-token shape.
type Shape struct {
	Symbols  int  // fresh symbols in the authority block (capacity shapes of the symbol slice)
	Blocks   int  // appended blocks
	Reloaded bool // Unmarshal(Serialize()): block buffers then have spare capacity
	Sealed   bool
	KeyID    bool
}

func (s Shape) String() string {
	return fmt.Sprintf("token(authority with %d fresh symbols, %d appended blocks, reloaded=%v, sealed=%v, keyid=%v)", s.Symbols, s.Blocks, s.Reloaded, s.Sealed, s.KeyID)
}

var Shapes = []Shape{
	{3, 0, false, false, false}, {3, 0, true, false, false}, {3, 1, true, false, true}, {0, 0, false, false, false},
	{5, 3, false, false, false}, {2, 3, true, false, false}, {6, 2, true, true, false}, {1, 1, false, false, true},
}

func v(n string) rx.Val { return rx.Var(n) }

func authority(k int) refdl.Block {
	// the second check exercises the string operators (regular expression, concatenation, prefix)
	strOps := []rx.Op{
		{Kind: rx.OpValue, V: v("op")}, {Kind: rx.OpValue, V: rx.Str("^re.d$")}, {Kind: rx.OpBinary, B: rx.Regex},
		{Kind: rx.OpValue, V: v("op")}, {Kind: rx.OpValue, V: rx.Str("-suffix")}, {Kind: rx.OpBinary, B: rx.Add}, {Kind: rx.OpValue, V: rx.Str("re")}, {Kind: rx.OpBinary, B: rx.Prefix},
		{Kind: rx.OpBinary, B: rx.And},
	}
	b := refdl.Block{Facts: []refdl.Atom{refdl.A("right", rx.Str("read"), rx.Str("read"))}, Checks: []refdl.Check{
		{Queries: []refdl.Rule{{Head: refdl.A("query"), Body: []refdl.Atom{refdl.A("operation", rx.Str("read"))}}}},
		{Queries: []refdl.Rule{{Head: refdl.A("query"), Body: []refdl.Atom{refdl.A("operation", v("op"))}, Exprs: [][]rx.Op{strOps}}, {Head: refdl.A("query"), Body: []refdl.Atom{refdl.A("operation", rx.Str("write"))}}}},
	}}
	if k > 0 {
		var ts []rx.Val
		for j := 1; j < k; j++ {
			ts = append(ts, rx.Str(fmt.Sprintf("n%d", j)))
		}
		b.Facts = append(b.Facts, refdl.A("n0", ts...))
	}
	return b
}

var sharedParser = parser.New()

// MakeShared builds the shared objects for a shape (deterministic).
func MakeShared(sh Shape) (*Shared, error) {
	pub, priv := hx.Keys(1)
	var b biscuit.Builder
	if sh.KeyID {
		b = biscuit.NewBuilder(priv, biscuit.WithRNG(hx.NewRNG(1)), biscuit.WithRootKeyID(7))
	} else {
		b = biscuit.NewBuilder(priv, biscuit.WithRNG(hx.NewRNG(1)))
	}
	if err := hx.FillBuilder(b, authority(sh.Symbols)); err != nil {
		return nil, err
	}
	tok, err := b.Build()
	if err != nil {
		return nil, err
	}
	for i := 0; i < sh.Blocks; i++ {
		bb := tok.CreateBlock()
		hx.FillBlock(bb, refdl.Block{Facts: []refdl.Atom{refdl.A("blk", rx.Int(int64(i)), rx.Str(fmt.Sprintf("b%d", i)))}, Rules: []refdl.Rule{{Head: refdl.A("seen", v("x")), Body: []refdl.Atom{refdl.A("blk", v("x"), v("y"))}}}})
		if tok, err = tok.Append(hx.NewRNG(uint64(10+i)), bb.Build()); err != nil {
			return nil, err
		}
	}
	if sh.Sealed {
		if tok, err = tok.Seal(hx.NewRNG(50)); err != nil {
			return nil, err
		}
	}
	if sh.Reloaded {
		ser, err := tok.Serialize()
		if err != nil {
			return nil, err
		}
		if tok, err = biscuit.Unmarshal(ser); err != nil {
			return nil, err
		}
	}
	s := &Shared{Tok: tok, Pub: pub, Parser: sharedParser}
	s.PBlock, err = sharedParser.Block(`shared("value", 1); derived($x) <- shared($x, $y), $y < 5; check if operation("read"); scopes(["write", "read"]);`, nil)
	if err != nil {
		return nil, err
	}
	s.PAuth, err = sharedParser.Authorizer(`operation("read"); resource("file1"); allowed($r) <- resource($r); check if right("read", "read"); check if ["write", "read", "admin"].contains($op), operation($op); allow if allowed("file1"), ["z", "a"].contains("a"); allow if operation("never"); deny if true;`, nil)
	if err != nil {
		return nil, err
	}
	return s, nil
}

// Op is one operation a goroutine performs; it returns an observation that
// must not depend on what other goroutines do.
type Op struct {
	Name string
	// Sync: the operation evaluates Datalog (it contains synchronisation operations of the library)
	Sync bool
	// NeedsUnsealed: refused on a sealed token (the refusal is the observation then)
	Run func(s *Shared, id int) string
	// Expect, when set, is the result the operation has on every shape for every id: known
	// from the content, not measured - a baseline measured in a process that has already run
	// other authorizations could itself be the product of state they left behind
	Expect string
}

func class(err error) string { return hx.Classify(err) }

func ownAuthorizer(s *Shared) (biscuit.Authorizer, error) {
	if s.Tok.RootKeyID() != nil {
		return s.Tok.AuthorizerFor(biscuit.WithRootPublicKeys(map[uint32]ed25519.PublicKey{7: s.Pub}, nil), hx.LongLimits)
	}
	return s.Tok.AuthorizerFor(biscuit.WithSingularRootPublicKey(s.Pub), hx.LongLimits)
}

func newBlockOn(s *Shared, id int) (*biscuit.Block, error) {
	bb := s.Tok.CreateBlock()
	err := hx.FillBlock(bb, refdl.Block{
		Facts:  []refdl.Atom{refdl.A("mine", rx.Str(fmt.Sprintf("goroutine-%d", id)), rx.Str("n1"))},
		Checks: []refdl.Check{{Queries: []refdl.Rule{{Head: refdl.A("query"), Body: []refdl.Atom{refdl.A(fmt.Sprintf("check%d", id), rx.Int(int64(id)))}}}}},
	})
	if err != nil {
		return nil, err
	}
	return bb.Build(), nil
}

func describe(t *biscuit.Biscuit, err error) string {
	if err != nil {
		return "error: " + err.Error()
	}
	ser, err := t.Serialize()
	if err != nil {
		return "serialize error: " + err.Error()
	}
	re, err := biscuit.Unmarshal(ser)
	if err != nil {
		return fmt.Sprintf("bytes %x do not reload: %v", ser, err)
	}
	return fmt.Sprintf("bytes=%x reloaded=%s", ser, re.String())
}

var Ops = []Op{
	{Name: "AuthorizerFor", Run: func(s *Shared, id int) string {
		_, err := ownAuthorizer(s)
		return fmt.Sprint(err)
	}},
	{Name: "Authorize", Sync: true, Run: func(s *Shared, id int) string {
		a, err := ownAuthorizer(s)
		if err != nil {
			return "rejected: " + err.Error()
		}
		a.AddFact(hx.Fact(refdl.A("operation", rx.Str("read"))))
		a.AddFact(hx.Fact(refdl.A("caller", rx.Int(int64(id)))))
		a.AddRule(hx.Rule(refdl.Rule{Head: refdl.A("ok", v("x")), Body: []refdl.Atom{refdl.A("caller", v("x")), refdl.A("right", v("r"), rx.Str("read"))}}))
		// a check with a pattern of the goroutine's own
		a.AddCheck(hx.Check(refdl.Check{Queries: []refdl.Rule{{Head: refdl.A("query"), Body: []refdl.Atom{refdl.A("operation", v("o"))}, Exprs: [][]rx.Op{{{Kind: rx.OpValue, V: v("o")}, {Kind: rx.OpValue, V: rx.Str(fmt.Sprintf("^r[e%d]ad$", id))}, {Kind: rx.OpBinary, B: rx.Regex}}}}}}))
		// … and one that only the goroutine's own name satisfies: a pattern compiled for another
		// authorizer must never be applied here
		a.AddFact(hx.Fact(refdl.A("caller_name", rx.Str(fmt.Sprintf("g%d", id)))))
		a.AddCheck(hx.Check(refdl.Check{Queries: []refdl.Rule{{Head: refdl.A("query"), Body: []refdl.Atom{refdl.A("caller_name", v("n"))}, Exprs: [][]rx.Op{{{Kind: rx.OpValue, V: v("n")}, {Kind: rx.OpValue, V: rx.Str(fmt.Sprintf("^g%d$", id))}, {Kind: rx.OpBinary, B: rx.Regex}}}}}}))
		a.AddPolicy(hx.Policy(refdl.Policy{Allow: true, Queries: []refdl.Rule{{Head: refdl.A("query"), Body: []refdl.Atom{refdl.A("ok", rx.Int(int64(id)))}}}}))
		err = a.Authorize()
		return class(err) + fmt.Sprint(hx.FailedChecks(err))
	}, Expect: "ok[]"},
	{Name: "Authorize-denied", Sync: true, Run: func(s *Shared, id int) string {
		a, err := ownAuthorizer(s)
		if err != nil {
			return "rejected: " + err.Error()
		}
		a.AddFact(hx.Fact(refdl.A("operation", rx.Str("write"))))
		a.AddPolicy(biscuit.DefaultAllowPolicy)
		err = a.Authorize()
		return class(err) + fmt.Sprint(hx.FailedChecks(err))
	}},
	{Name: "Query", Sync: true, Run: func(s *Shared, id int) string {
		a, err := ownAuthorizer(s)
		if err != nil {
			return "rejected: " + err.Error()
		}
		a.AddFact(hx.Fact(refdl.A("caller", rx.Int(int64(id)))))
		ks, err := hx.QuerySet(a, refdl.Rule{Head: refdl.A("out", v("x")), Body: []refdl.Atom{refdl.A("caller", v("x"))}})
		return fmt.Sprint(ks, err)
	}},
	{Name: "String", Run: func(s *Shared, id int) string { return s.Tok.String() }},
	{Name: "Code", Run: func(s *Shared, id int) string { return strings.Join(s.Tok.Code(), "|") }},
	{Name: "GetBlockID-unseen", Run: func(s *Shared, id int) string {
		n, err := s.Tok.GetBlockID(hx.Fact(refdl.A("lookup", rx.Str(fmt.Sprintf("never-seen-%d", id)), rx.Str("n1"))))
		return fmt.Sprint(n, err)
	}},
	{Name: "GetBlockID-known-name-unseen-term", Run: func(s *Shared, id int) string {
		n, err := s.Tok.GetBlockID(hx.Fact(refdl.A("right", rx.Str(fmt.Sprintf("never-seen-term-%d", id)), rx.Str("read"))))
		return fmt.Sprint(n, err)
	}},
	{Name: "GetBlockID-known-name-unseen-string-inside-a-set", Run: func(s *Shared, id int) string {
		n, err := s.Tok.GetBlockID(hx.Fact(refdl.A("right", rx.SetOf(rx.Str("read"), rx.Str(fmt.Sprintf("never-seen-in-set-%d", id))), rx.Str("read"))))
		return fmt.Sprint(n, err)
	}},
	{Name: "GetBlockID-present", Run: func(s *Shared, id int) string {
		n, err := s.Tok.GetBlockID(hx.Fact(refdl.A("right", rx.Str("read"), rx.Str("read"))))
		return fmt.Sprint(n, err)
	}},
	{Name: "CreateBlock+Build", Run: func(s *Shared, id int) string {
		blk, err := newBlockOn(s, id)
		if err != nil {
			return "error: " + err.Error()
		}
		return fmt.Sprint(blk != nil)
	}},
	{Name: "Append", Run: func(s *Shared, id int) string {
		blk, err := newBlockOn(s, id)
		if err != nil {
			return "error: " + err.Error()
		}
		t, err := s.Tok.Append(hx.NewRNG(uint64(1000+id)), blk)
		return describe(t, err)
	}},
	{Name: "Seal", Run: func(s *Shared, id int) string {
		t, err := s.Tok.Seal(hx.NewRNG(uint64(2000 + id)))
		return describe(t, err)
	}},
	{Name: "Serialize", Run: func(s *Shared, id int) string {
		b, err := s.Tok.Serialize()
		return fmt.Sprintf("%x %v", b, err)
	}},
	{Name: "RevocationIds+accessors", Run: func(s *Shared, id int) string {
		return fmt.Sprintf("%x %d %q %v %d", s.Tok.RevocationIds(), s.Tok.BlockCount(), s.Tok.GetContext(), s.Tok.RootKeyID() != nil, len(s.Tok.Checks()))
	}},
	{Name: "AddBlock(shared parsed block)+Build", Run: func(s *Shared, id int) string {
		_, priv := hx.Keys(byte(10 + id))
		b := biscuit.NewBuilder(priv, biscuit.WithRNG(hx.NewRNG(uint64(3000+id))))
		if err := b.AddBlock(s.PBlock); err != nil {
			return "error: " + err.Error()
		}
		t, err := b.Build()
		return describe(t, err)
	}},
	{Name: "AddAuthorizer(shared parsed authorizer)+Authorize", Sync: true, Run: func(s *Shared, id int) string {
		a, err := ownAuthorizer(s)
		if err != nil {
			return "rejected: " + err.Error()
		}
		a.AddAuthorizer(s.PAuth)
		// the parsed value holds three policies (a slice with spare capacity): adding one more to
		// this authorizer must not write into it
		a.AddPolicy(biscuit.Policy{Kind: biscuit.PolicyKindDeny, Queries: []biscuit.Rule{{Head: biscuit.Predicate{Name: "query"}, Body: []biscuit.Predicate{{Name: "own", IDs: []biscuit.Term{biscuit.Integer(id)}}}}}})
		err = a.Authorize()
		return class(err) + fmt.Sprint(hx.FailedChecks(err))
	}},
	{Name: "Parser.Block+Check(shared parser)", Run: func(s *Shared, id int) string {
		b, err := s.Parser.Block(fmt.Sprintf(`p(%d, "x"); q($a) <- p($a, $b), $a + 1 > %d; check if q(%d) or p(1, "y");`, id, id, id), nil)
		if err != nil {
			return "error: " + err.Error()
		}
		c, err := s.Parser.Check(`check if [1, 2].contains($x), p($x, "x")`, nil)
		var fs []string
		for _, f := range b.Facts {
			fs = append(fs, f.String())
		}
		sort.Strings(fs)
		return fmt.Sprint(fs, len(b.Rules), len(b.Checks), len(c.Queries), err)
	}},
}
