package foot

import "testing"

type inner struct {
	buf  []byte
	syms []string
	m    map[string]int
}

type outer struct {
	p *inner
	i interface{}
}

func TestFootprint(t *testing.T) {
	o := &outer{p: &inner{buf: make([]byte, 3, 8), syms: make([]string, 1, 4), m: map[string]int{"a": 1}}, i: 5}
	r := Region{Roots: map[string]interface{}{"o": o}}
	r.FillSpare()
	a := r.Snapshot()
	if d := Diff(a, r.Snapshot()); len(d) != 0 {
		t.Fatalf("unstable: %v", d)
	}
	_ = append(o.p.buf, 1) // writes spare capacity
	if d := Diff(a, r.Snapshot()); len(d) != 1 {
		t.Fatalf("spare byte write not seen: %v", d)
	}
	a = r.Snapshot()
	_ = append(o.p.syms, "x")
	if d := Diff(a, r.Snapshot()); len(d) != 1 {
		t.Fatalf("spare string write not seen: %v", d)
	}
	a = r.Snapshot()
	o.p.m["b"] = 2
	if d := Diff(a, r.Snapshot()); len(d) == 0 {
		t.Fatal("map write not seen")
	}
}
