// Package foot computes the footprint of an operation on a region of shared
// memory: everything reachable (through pointers, interfaces, slices up to
// their CAPACITY, maps, unexported fields) from a set of roots is digested
// before and after the operation; any difference is a write to shared memory.
package foot

import (
	"fmt"
	"reflect"
	"sort"
	"strings"
	"unsafe"
)

// Region is a set of named roots (pointers).
type Region struct {
	Roots map[string]interface{}
}

type walker struct {
	out     map[string]string
	visited map[visitKey]string
	fill    bool // write sentinels into spare capacity instead of recording
	limit   int
}

type visitKey struct {
	p uintptr
	t reflect.Type
	n int
}

const (
	sentinelByte   = 0xA5
	sentinelString = "\x00spare-capacity-sentinel"
)

// skipType: memory the library does not own and that is documented as safe for concurrent use.
func skipType(t reflect.Type) bool {
	pp := t.PkgPath()
	return strings.HasPrefix(pp, "google.golang.org/protobuf") || pp == "sync" || pp == "sync/atomic" || strings.HasPrefix(pp, "github.com/alecthomas/participle") || pp == "regexp" || pp == "regexp/syntax" || strings.HasPrefix(pp, "internal/")
}

func access(v reflect.Value) reflect.Value {
	if v.CanAddr() {
		return reflect.NewAt(v.Type(), unsafe.Pointer(v.UnsafeAddr())).Elem()
	}
	return v
}

func (w *walker) walk(path string, v reflect.Value) {
	if len(w.out) > w.limit {
		return
	}
	if !v.IsValid() {
		w.rec(path, "invalid")
		return
	}
	t := v.Type()
	if skipType(t) {
		return
	}
	if t.PkgPath() == "time" && t.Name() == "Time" {
		if v.CanInterface() {
			w.rec(path, fmt.Sprint(v.Interface()))
		}
		return
	}
	switch v.Kind() {
	case reflect.Bool:
		w.rec(path, fmt.Sprint(v.Bool()))
	case reflect.Int, reflect.Int8, reflect.Int16, reflect.Int32, reflect.Int64:
		w.rec(path, fmt.Sprint(v.Int()))
	case reflect.Uint, reflect.Uint8, reflect.Uint16, reflect.Uint32, reflect.Uint64, reflect.Uintptr:
		w.rec(path, fmt.Sprint(v.Uint()))
	case reflect.Float32, reflect.Float64:
		w.rec(path, fmt.Sprint(v.Float()))
	case reflect.String:
		w.rec(path, fmt.Sprintf("%q", v.String()))
	case reflect.Func, reflect.Chan, reflect.UnsafePointer:
		if v.IsNil() {
			w.rec(path, "nil")
		} else {
			w.rec(path, fmt.Sprintf("%s@%x", v.Kind(), v.Pointer()))
		}
	case reflect.Ptr:
		if v.IsNil() {
			w.rec(path, "nil")
			return
		}
		k := visitKey{v.Pointer(), t, 0}
		if first, ok := w.visited[k]; ok {
			w.rec(path, "-> "+first)
			return
		}
		w.visited[k] = path
		w.rec(path, "ptr")
		w.walk(path+".*", access(v.Elem()))
	case reflect.Interface:
		if v.IsNil() {
			w.rec(path, "nil")
			return
		}
		e := v.Elem()
		w.rec(path, "iface:"+e.Type().String())
		if e.Kind() == reflect.Ptr || e.Kind() == reflect.Map || e.Kind() == reflect.Slice {
			w.walk(path+".(v)", e)
			return
		}
		// a value stored in an interface is immutable through the interface; record a copy
		c := reflect.New(e.Type()).Elem()
		c.Set(e)
		w.walk(path+".(v)", c)
	case reflect.Struct:
		for i := 0; i < v.NumField(); i++ {
			f := t.Field(i)
			if skipType(f.Type) || (f.Type.Kind() == reflect.Ptr && skipType(f.Type.Elem())) {
				continue
			}
			// protobuf-go's per-message bookkeeping (written with atomics by proto.Marshal)
			if f.Name == "state" || f.Name == "sizeCache" || f.Name == "unknownFields" {
				continue
			}
			w.walk(path+"."+f.Name, access(v.Field(i)))
		}
	case reflect.Array:
		for i := 0; i < v.Len(); i++ {
			w.walk(fmt.Sprintf("%s[%d]", path, i), access(v.Index(i)))
		}
	case reflect.Slice:
		if v.IsNil() {
			w.rec(path, "nil-slice")
			return
		}
		n, c := v.Len(), v.Cap()
		w.rec(path, fmt.Sprintf("slice len=%d cap=%d", n, c))
		k := visitKey{v.Pointer(), t, c}
		if first, ok := w.visited[k]; ok {
			w.rec(path+".data", "-> "+first)
			return
		}
		w.visited[k] = path
		full := v.Slice(0, c)
		if t.Elem().Kind() == reflect.Uint8 {
			b := full.Bytes()
			if w.fill {
				for i := n; i < c; i++ {
					b[i] = sentinelByte
				}
				return
			}
			w.rec(path+"[0:cap]", fmt.Sprintf("%x", b))
			return
		}
		for i := 0; i < c; i++ {
			e := full.Index(i)
			if w.fill && i >= n && e.Kind() == reflect.String {
				access(e).SetString(sentinelString)
				continue
			}
			tag := ""
			if i >= n {
				tag = "(spare)"
			}
			w.walk(fmt.Sprintf("%s[%d]%s", path, i, tag), access(e))
		}
	case reflect.Map:
		if v.IsNil() {
			w.rec(path, "nil-map")
			return
		}
		k := visitKey{v.Pointer(), t, 0}
		if first, ok := w.visited[k]; ok {
			w.rec(path, "-> "+first)
			return
		}
		w.visited[k] = path
		w.rec(path, fmt.Sprintf("map len=%d", v.Len()))
		keys := v.MapKeys()
		sort.Slice(keys, func(i, j int) bool { return fmt.Sprint(keys[i]) < fmt.Sprint(keys[j]) })
		for _, mk := range keys {
			ev := v.MapIndex(mk)
			c := reflect.New(ev.Type()).Elem()
			c.Set(ev)
			w.walk(fmt.Sprintf("%s[%v]", path, mk), c)
		}
	default:
		w.rec(path, "kind:"+v.Kind().String())
	}
}

func (w *walker) rec(path, val string) {
	if w.fill {
		return
	}
	w.out[path] = val
}

func (r Region) run(fill bool) map[string]string {
	w := &walker{out: map[string]string{}, visited: map[visitKey]string{}, fill: fill, limit: 2000000}
	names := make([]string, 0, len(r.Roots))
	for n := range r.Roots {
		names = append(names, n)
	}
	sort.Strings(names)
	for _, n := range names {
		w.walk(n, reflect.ValueOf(r.Roots[n]))
	}
	return w.out
}

// FillSpare writes a sentinel into every spare byte / string slot of the region.
func (r Region) FillSpare() { r.run(true) }

// Snapshot digests the region.
func (r Region) Snapshot() map[string]string { return r.run(false) }

// Diff lists the paths whose digest differs (or that appeared / disappeared).
func Diff(before, after map[string]string) []string {
	var out []string
	for p, v := range before {
		if a, ok := after[p]; !ok {
			out = append(out, p+": disappeared (was "+short(v)+")")
		} else if a != v {
			out = append(out, p+": "+short(v)+" -> "+short(a))
		}
	}
	for p, v := range after {
		if _, ok := before[p]; !ok {
			out = append(out, p+": appeared ("+short(v)+")")
		}
	}
	sort.Strings(out)
	return out
}

func short(s string) string {
	if len(s) > 120 {
		return s[:60] + "…" + s[len(s)-50:]
	}
	return s
}
