// Package refexpr is the reference evaluator for Biscuit expressions: values
// are plain Go data (strings are strings, integers are math/big), sets are
// compared as sets. It is deliberately boring and shares no code with the
// library.
package refexpr

import (
	"bytes"
	"fmt"
	"math/big"
	"regexp"
	"sort"
	"strings"
)

type Kind int

const (
	KInt Kind = iota
	KStr
	KDate
	KBytes
	KBool
	KSet
	KVar // only as an operand of a Value op: looked up in the bindings
)

func (k Kind) String() string {
	return [...]string{"int", "string", "date", "bytes", "bool", "set", "var"}[k]
}

// Val is a ground value (or, for KVar, a variable name).
type Val struct {
	K   Kind
	I   int64
	S   string // string value or variable name
	D   uint64
	B   []byte
	Bo  bool
	Set []Val
}

func Int(i int64) Val     { return Val{K: KInt, I: i} }
func Str(s string) Val    { return Val{K: KStr, S: s} }
func Date(d uint64) Val   { return Val{K: KDate, D: d} }
func Bytes(b []byte) Val  { return Val{K: KBytes, B: b} }
func Bool(b bool) Val     { return Val{K: KBool, Bo: b} }
func SetOf(vs ...Val) Val { return Val{K: KSet, Set: vs} }
func Var(name string) Val { return Val{K: KVar, S: name} }

// Key is a canonical rendering: equal values (sets as sets) have equal keys.
func (v Val) Key() string {
	switch v.K {
	case KInt:
		return fmt.Sprintf("i%d", v.I)
	case KStr:
		return fmt.Sprintf("s%q", v.S)
	case KDate:
		return fmt.Sprintf("d%d", v.D)
	case KBytes:
		return fmt.Sprintf("x%x", v.B)
	case KBool:
		return fmt.Sprintf("b%t", v.Bo)
	case KVar:
		return "$" + v.S
	case KSet:
		ks := make([]string, 0, len(v.Set))
		seen := map[string]bool{}
		for _, e := range v.Set {
			k := e.Key()
			if !seen[k] {
				seen[k] = true
				ks = append(ks, k)
			}
		}
		sort.Strings(ks)
		return "[" + strings.Join(ks, ",") + "]"
	}
	return "?"
}

func (v Val) String() string { return v.Key() }

// Equal: same type and same value (sets as sets).
func (v Val) Equal(o Val) bool { return v.Key() == o.Key() }

type OpKind int

const (
	OpValue OpKind = iota
	OpUnary
	OpBinary
)

type Unary int

const (
	Negate Unary = iota
	Parens
	Length
)

var UnaryNames = [...]string{"!", "()", ".length()"}

type Binary int

// The order is the library's BinaryOpType order (also the order used by the
// harness when it maps to library operators by name, never by number).
const (
	LessThan Binary = iota
	LessOrEqual
	GreaterThan
	GreaterOrEqual
	Equal
	Contains
	Prefix
	Suffix
	Regex
	Add
	Sub
	Mul
	Div
	And
	Or
	Intersection
	Union
	NBinary
)

var BinaryNames = [...]string{"<", "<=", ">", ">=", "==", "contains", "starts_with", "ends_with", "matches", "+", "-", "*", "/", "&&", "||", "intersection", "union"}

type Op struct {
	Kind OpKind
	V    Val
	U    Unary
	B    Binary
}

func (o Op) String() string {
	switch o.Kind {
	case OpValue:
		return o.V.Key()
	case OpUnary:
		return UnaryNames[o.U]
	}
	return BinaryNames[o.B]
}

func OpsString(ops []Op) string {
	s := make([]string, len(ops))
	for i, o := range ops {
		s[i] = o.String()
	}
	return strings.Join(s, " ")
}

// Outcome is the set of results the property allows for one evaluation.
type Outcome struct {
	Err    bool  // an error is allowed
	Vals   []Val // each of these values is allowed
	Reason string
}

func (o Outcome) String() string {
	var p []string
	if o.Err {
		p = append(p, "error")
	}
	for _, v := range o.Vals {
		p = append(p, v.Key())
	}
	s := "{" + strings.Join(p, " | ") + "}"
	if o.Reason != "" {
		s += " (" + o.Reason + ")"
	}
	return s
}

func errOut(r string) Outcome         { return Outcome{Err: true, Reason: r} }
func valOut(v Val) Outcome            { return Outcome{Vals: []Val{v}} }
func (o Outcome) single() (Val, bool) { return firstVal(o), !o.Err && len(o.Vals) == 1 }
func firstVal(o Outcome) Val {
	if len(o.Vals) > 0 {
		return o.Vals[0]
	}
	return Val{}
}

// Allows reports whether an observed result is inside the outcome set.
func (o Outcome) Allows(isErr bool, v Val) bool {
	if isErr {
		return o.Err
	}
	for _, a := range o.Vals {
		if a.Equal(v) {
			return true
		}
	}
	return false
}

const MaxStack = 1000

var (
	minI = big.NewInt(-1 << 63)
	maxI = new(big.Int).SetUint64(1<<63 - 1)
)

func fit(b *big.Int) Outcome {
	if b.Cmp(minI) < 0 || b.Cmp(maxI) > 0 {
		return errOut("overflow")
	}
	return valOut(Int(b.Int64()))
}

func elemKinds(s Val) map[Kind]bool {
	m := map[Kind]bool{}
	for _, e := range s.Set {
		m[e.K] = true
	}
	return m
}

func hasDup(s Val) bool {
	seen := map[string]bool{}
	for _, e := range s.Set {
		k := e.Key()
		if seen[k] {
			return true
		}
		seen[k] = true
	}
	return false
}

// wellFormedSet: non-empty, one element kind, no nested set, no duplicates —
// what the wire format and the grammar can express. Operations on other sets
// are outside the operator table: the outcome is widened to "value or error".
func wellFormedSet(s Val) bool {
	if s.K != KSet {
		return true
	}
	ks := elemKinds(s)
	if len(ks) > 1 || ks[KSet] || ks[KVar] || hasDup(s) {
		return false
	}
	return true
}

func EvalUnary(u Unary, v Val) Outcome {
	switch u {
	case Negate:
		if v.K != KBool {
			return errOut("! on non-bool")
		}
		return valOut(Bool(!v.Bo))
	case Parens:
		return valOut(v)
	case Length:
		switch v.K {
		case KStr:
			// the operator table defines the length of a string as the number of bytes of its
			// UTF-8 encoding (not the number of characters)
			return valOut(Int(int64(len(v.S))))
		case KBytes:
			return valOut(Int(int64(len(v.B))))
		case KSet:
			if hasDup(v) {
				return Outcome{Err: true, Vals: []Val{Int(int64(len(v.Set))), Int(int64(len(dedup(v.Set))))}, Reason: "duplicate elements"}
			}
			return valOut(Int(int64(len(v.Set))))
		}
		return errOut("length of " + v.K.String())
	}
	return errOut("unknown unary")
}

func dedup(vs []Val) []Val {
	seen := map[string]bool{}
	var out []Val
	for _, e := range vs {
		k := e.Key()
		if !seen[k] {
			seen[k] = true
			out = append(out, e)
		}
	}
	return out
}

func contains(set []Val, e Val) bool {
	for _, x := range set {
		if x.Equal(e) {
			return true
		}
	}
	return false
}

func EvalBinary(b Binary, l, r Val) Outcome {
	switch b {
	case LessThan, LessOrEqual, GreaterThan, GreaterOrEqual:
		if l.K != r.K || (l.K != KInt && l.K != KDate) {
			return errOut("ordering needs two integers or two dates")
		}
		var c int
		if l.K == KInt {
			switch {
			case l.I < r.I:
				c = -1
			case l.I > r.I:
				c = 1
			}
		} else {
			switch {
			case l.D < r.D:
				c = -1
			case l.D > r.D:
				c = 1
			}
		}
		switch b {
		case LessThan:
			return valOut(Bool(c < 0))
		case LessOrEqual:
			return valOut(Bool(c <= 0))
		case GreaterThan:
			return valOut(Bool(c > 0))
		default:
			return valOut(Bool(c >= 0))
		}
	case Equal:
		if l.K != r.K {
			return errOut("== on different types")
		}
		if l.K == KSet {
			if !wellFormedSet(l) || !wellFormedSet(r) {
				return Outcome{Err: true, Vals: []Val{Bool(true), Bool(false)}, Reason: "ill-formed set operand"}
			}
			lk, rk := elemKinds(l), elemKinds(r)
			same := true
			for k := range lk {
				if !rk[k] {
					same = false
				}
			}
			if !same && len(l.Set) > 0 && len(r.Set) > 0 {
				// sets of different element types: unequal, or a type error
				return Outcome{Err: true, Vals: []Val{Bool(false)}, Reason: "sets of different element types"}
			}
		}
		return valOut(Bool(l.Equal(r)))
	case Contains:
		if l.K == KStr {
			if r.K != KStr {
				return errOut("string.contains(non-string)")
			}
			return valOut(Bool(strings.Contains(l.S, r.S)))
		}
		if l.K != KSet {
			return errOut("contains on " + l.K.String())
		}
		if r.K == KVar {
			return errOut("variable operand")
		}
		if !wellFormedSet(l) || !wellFormedSet(r) {
			return Outcome{Err: true, Vals: []Val{Bool(true), Bool(false)}, Reason: "ill-formed set operand"}
		}
		if r.K == KSet {
			// inclusion
			lk, rk := elemKinds(l), elemKinds(r)
			mismatch := false
			for k := range rk {
				if !lk[k] {
					mismatch = true
				}
			}
			all := true
			for _, e := range r.Set {
				if !contains(l.Set, e) {
					all = false
				}
			}
			if mismatch {
				return Outcome{Err: true, Vals: []Val{Bool(all)}, Reason: "element type mismatch"}
			}
			return valOut(Bool(all))
		}
		lk := elemKinds(l)
		if !lk[r.K] && len(l.Set) > 0 {
			return Outcome{Err: true, Vals: []Val{Bool(false)}, Reason: "element type mismatch"}
		}
		return valOut(Bool(contains(l.Set, r)))
	case Prefix, Suffix, Regex:
		if l.K != KStr || r.K != KStr {
			return errOut("string method on non-strings")
		}
		switch b {
		case Prefix:
			return valOut(Bool(strings.HasPrefix(l.S, r.S)))
		case Suffix:
			return valOut(Bool(strings.HasSuffix(l.S, r.S)))
		}
		re, err := regexp.Compile(r.S)
		if err != nil {
			return errOut("invalid regex")
		}
		return valOut(Bool(re.MatchString(l.S)))
	case Add:
		if l.K == KStr && r.K == KStr {
			return valOut(Str(l.S + r.S))
		}
		fallthrough
	case Sub, Mul, Div:
		if l.K != KInt || r.K != KInt {
			return errOut("arithmetic on non-integers")
		}
		x, y := big.NewInt(l.I), big.NewInt(r.I)
		z := new(big.Int)
		switch b {
		case Add:
			z.Add(x, y)
		case Sub:
			z.Sub(x, y)
		case Mul:
			z.Mul(x, y)
		case Div:
			if r.I == 0 {
				return errOut("division by zero")
			}
			z.Quo(x, y) // truncated division, the only integer division both Go and Rust define
		}
		return fit(z)
	case And, Or:
		if l.K != KBool || r.K != KBool {
			return errOut("boolean operator on non-bools")
		}
		if b == And {
			return valOut(Bool(l.Bo && r.Bo))
		}
		return valOut(Bool(l.Bo || r.Bo))
	case Intersection, Union:
		if l.K != KSet || r.K != KSet {
			return errOut("set operator on non-sets")
		}
		var out []Val
		if b == Intersection {
			for _, e := range l.Set {
				if contains(r.Set, e) {
					out = append(out, e)
				}
			}
		} else {
			out = append(out, l.Set...)
			for _, e := range r.Set {
				if !contains(l.Set, e) {
					out = append(out, e)
				}
			}
		}
		res := SetOf(dedup(out)...)
		if !wellFormedSet(l) || !wellFormedSet(r) || !wellFormedSet(res) {
			return Outcome{Err: true, Vals: []Val{res}, Reason: "ill-formed or mixed set"}
		}
		return valOut(res)
	}
	return errOut("unknown binary")
}

// Eval evaluates a postfix operator sequence. When an intermediate step has
// several allowed outcomes the whole evaluation is explored for each of them
// and the union is returned.
func Eval(ops []Op, bind map[string]Val) Outcome {
	return evalFrom(ops, nil, bind)
}

func evalFrom(ops []Op, stack []Val, bind map[string]Val) Outcome {
	for i, op := range ops {
		var step Outcome
		switch op.Kind {
		case OpValue:
			v := op.V
			if v.K == KVar {
				b, ok := bind[v.S]
				if !ok {
					return errOut("unbound variable")
				}
				v = b
			}
			if len(stack) >= MaxStack {
				return errOut("stack overflow")
			}
			stack = append(stack[:len(stack):len(stack)], v)
			continue
		case OpUnary:
			if len(stack) < 1 {
				return errOut("stack underflow")
			}
			step = EvalUnary(op.U, stack[len(stack)-1])
			stack = stack[:len(stack)-1]
		case OpBinary:
			if len(stack) < 2 {
				return errOut("stack underflow")
			}
			step = EvalBinary(op.B, stack[len(stack)-2], stack[len(stack)-1])
			stack = stack[:len(stack)-2]
		}
		if v, ok := step.single(); ok {
			stack = append(stack[:len(stack):len(stack)], v)
			continue
		}
		if len(step.Vals) == 0 {
			return step // error only
		}
		// several allowed continuations
		res := Outcome{Err: step.Err, Reason: step.Reason}
		for _, v := range step.Vals {
			sub := evalFrom(ops[i+1:], append(stack[:len(stack):len(stack)], v), bind)
			res.Err = res.Err || sub.Err
			for _, sv := range sub.Vals {
				if !res.Allows(false, sv) {
					res.Vals = append(res.Vals, sv)
				}
			}
		}
		return res
	}
	if len(stack) != 1 {
		return errOut("result stack does not hold exactly one value")
	}
	return valOut(stack[0])
}

var _ = bytes.Equal
