// Package dlx bridges harness values (refexpr.Val, plain strings) and the
// library's datalog-level terms (symbol indexes). The symbol numbering is the
// harness's own transcription of the published rules: 28 default symbols from
// index 0, table symbols from 1024.
package dlx

import (
	"fmt"

	"github.com/biscuit-auth/biscuit-go/v2/datalog"

	"verif/internal/refdl"
	rx "verif/internal/refexpr"
)

// DefaultSymbols is transcribed from the Biscuit specification (v2 default table).
var DefaultSymbols = []string{
	"read", "write", "resource", "operation", "right", "time", "role", "owner", "tenant", "namespace",
	"user", "team", "service", "admin", "email", "group", "member", "ip_address", "client", "client_ip",
	"domain", "path", "version", "cluster", "node", "hostname", "nonce", "query",
}

const Offset = 1024

// Syms is a symbol table under harness control.
type Syms struct {
	Tab datalog.SymbolTable
}

func NewSyms(strs ...string) *Syms {
	s := &Syms{}
	for _, x := range strs {
		s.Index(x)
	}
	return s
}

func (s *Syms) Clone() *Syms {
	t := make(datalog.SymbolTable, len(s.Tab), len(s.Tab)+4)
	copy(t, s.Tab)
	return &Syms{Tab: t}
}

// Index interns a string by the published rule.
func (s *Syms) Index(x string) uint64 {
	for i, d := range DefaultSymbols {
		if d == x {
			return uint64(i)
		}
	}
	for i, d := range s.Tab {
		if d == x {
			return uint64(Offset + i)
		}
	}
	s.Tab = append(s.Tab, x)
	return uint64(Offset + len(s.Tab) - 1)
}

// Lookup resolves an index.
func (s *Syms) Lookup(i uint64) (string, bool) {
	if i < Offset {
		if int(i) < len(DefaultSymbols) {
			return DefaultSymbols[i], true
		}
		return "", false
	}
	if int(i-Offset) < len(s.Tab) {
		return s.Tab[i-Offset], true
	}
	return "", false
}

// Term converts a ground value (or variable) to a library term.
func (s *Syms) Term(v rx.Val) datalog.Term {
	switch v.K {
	case rx.KInt:
		return datalog.Integer(v.I)
	case rx.KStr:
		return datalog.String(s.Index(v.S))
	case rx.KDate:
		return datalog.Date(v.D)
	case rx.KBytes:
		return datalog.Bytes(v.B)
	case rx.KBool:
		return datalog.Bool(v.Bo)
	case rx.KVar:
		return datalog.Variable(s.Index(v.S))
	case rx.KSet:
		out := make(datalog.Set, 0, len(v.Set))
		for _, e := range v.Set {
			out = append(out, s.Term(e))
		}
		return out
	}
	panic("dlx: bad kind")
}

// Back converts a library term to a harness value.
func (s *Syms) Back(t datalog.Term) (rx.Val, error) {
	switch x := t.(type) {
	case datalog.Integer:
		return rx.Int(int64(x)), nil
	case datalog.String:
		str, ok := s.Lookup(uint64(x))
		if !ok {
			return rx.Val{}, fmt.Errorf("unresolvable string index %d", uint64(x))
		}
		return rx.Str(str), nil
	case datalog.Date:
		return rx.Date(uint64(x)), nil
	case datalog.Bytes:
		return rx.Bytes([]byte(x)), nil
	case datalog.Bool:
		return rx.Bool(bool(x)), nil
	case datalog.Variable:
		str, ok := s.Lookup(uint64(x))
		if !ok {
			return rx.Val{}, fmt.Errorf("unresolvable variable index %d", uint32(x))
		}
		return rx.Var(str), nil
	case datalog.Set:
		out := make([]rx.Val, 0, len(x))
		for _, e := range x {
			v, err := s.Back(e)
			if err != nil {
				return rx.Val{}, err
			}
			out = append(out, v)
		}
		return rx.SetOf(out...), nil
	case nil:
		return rx.Val{}, fmt.Errorf("nil term")
	}
	return rx.Val{}, fmt.Errorf("unknown term type %T", t)
}

// UnaryOp / BinaryOp map harness operators to library operators by meaning.
func UnaryOp(u rx.Unary) datalog.Op {
	switch u {
	case rx.Negate:
		return datalog.UnaryOp{UnaryOpFunc: datalog.Negate{}}
	case rx.Parens:
		return datalog.UnaryOp{UnaryOpFunc: datalog.Parens{}}
	case rx.Length:
		return datalog.UnaryOp{UnaryOpFunc: datalog.Length{}}
	}
	panic("dlx: bad unary")
}

func BinaryOp(b rx.Binary) datalog.Op {
	var f datalog.BinaryOpFunc
	switch b {
	case rx.LessThan:
		f = datalog.LessThan{}
	case rx.LessOrEqual:
		f = datalog.LessOrEqual{}
	case rx.GreaterThan:
		f = datalog.GreaterThan{}
	case rx.GreaterOrEqual:
		f = datalog.GreaterOrEqual{}
	case rx.Equal:
		f = datalog.Equal{}
	case rx.Contains:
		f = datalog.Contains{}
	case rx.Prefix:
		f = datalog.Prefix{}
	case rx.Suffix:
		f = datalog.Suffix{}
	case rx.Regex:
		f = datalog.Regex{}
	case rx.Add:
		f = datalog.Add{}
	case rx.Sub:
		f = datalog.Sub{}
	case rx.Mul:
		f = datalog.Mul{}
	case rx.Div:
		f = datalog.Div{}
	case rx.And:
		f = datalog.And{}
	case rx.Or:
		f = datalog.Or{}
	case rx.Intersection:
		f = datalog.Intersection{}
	case rx.Union:
		f = datalog.Union{}
	default:
		panic("dlx: bad binary")
	}
	return datalog.BinaryOp{BinaryOpFunc: f}
}

// Expr converts a harness operator sequence.
func (s *Syms) Expr(ops []rx.Op) datalog.Expression {
	out := make(datalog.Expression, len(ops))
	for i, o := range ops {
		switch o.Kind {
		case rx.OpValue:
			out[i] = datalog.Value{ID: s.Term(o.V)}
		case rx.OpUnary:
			out[i] = UnaryOp(o.U)
		case rx.OpBinary:
			out[i] = BinaryOp(o.B)
		}
	}
	return out
}

// Pred converts a harness atom to a library predicate.
func (s *Syms) Pred(a refdl.Atom) datalog.Predicate {
	p := datalog.Predicate{Name: datalog.String(s.Index(a.Name)), Terms: make([]datalog.Term, 0, len(a.Terms))}
	for _, t := range a.Terms {
		p.Terms = append(p.Terms, s.Term(t))
	}
	return p
}

func (s *Syms) Fact(a refdl.Atom) datalog.Fact { return datalog.Fact{Predicate: s.Pred(a)} }

func (s *Syms) Rule(r refdl.Rule) datalog.Rule {
	out := datalog.Rule{Head: s.Pred(r.Head)}
	for _, a := range r.Body {
		out.Body = append(out.Body, s.Pred(a))
	}
	for _, e := range r.Exprs {
		out.Expressions = append(out.Expressions, s.Expr(e))
	}
	return out
}

// BackAtom converts a library fact to a harness atom.
func (s *Syms) BackAtom(f datalog.Fact) (refdl.Atom, error) {
	name, ok := s.Lookup(uint64(f.Name))
	if !ok {
		return refdl.Atom{}, fmt.Errorf("unresolvable predicate name %d", uint64(f.Name))
	}
	a := refdl.Atom{Name: name}
	for _, t := range f.Terms {
		v, err := s.Back(t)
		if err != nil {
			return a, err
		}
		a.Terms = append(a.Terms, v)
	}
	return a, nil
}

// BackSet converts a library fact set.
func (s *Syms) BackSet(fs *datalog.FactSet) (refdl.Set, int, error) {
	out := refdl.Set{}
	dups := 0
	for _, f := range *fs {
		a, err := s.BackAtom(f)
		if err != nil {
			return nil, 0, err
		}
		if !out.Add(a) {
			dups++
		}
	}
	return out, dups, nil
}
