package repro

import (
	"sync"
	"testing"

	biscuit "github.com/biscuit-auth/biscuit-go/v2"
)

// D3 (C19): run with -race. Two goroutines verifying / sealing one reloaded
// token must not write the same spare capacity of the stored block bytes.
func TestD3ConcurrentVerifyOnReloadedToken(t *testing.T) {
	pub, priv := keys(1)
	b := biscuit.NewBuilder(priv, biscuit.WithRNG(&detRNG{}))
	b.AddAuthorityFact(fact("right", biscuit.String("f1"), biscuit.String("read")))
	tok, _ := b.Build()
	tok, _ = tok.Append(&detRNG{}, tok.CreateBlock().Build())
	ser, _ := tok.Serialize()
	re, err := biscuit.Unmarshal(ser)
	if err != nil {
		t.Fatal(err)
	}
	var wg sync.WaitGroup
	start := make(chan struct{})
	for g := 0; g < 4; g++ {
		wg.Add(1)
		g := g
		go func() {
			defer wg.Done()
			<-start
			if g%2 == 0 {
				if _, err := re.AuthorizerFor(biscuit.WithSingularRootPublicKey(pub)); err != nil {
					t.Error(err)
				}
			} else {
				if _, err := re.Seal(&detRNG{}); err != nil {
					t.Error(err)
				}
			}
		}()
	}
	close(start)
	wg.Wait()
}
