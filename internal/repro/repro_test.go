// Package repro holds plain unit tests, one per genuine defect found by the
// checks (DESIGN §5): each replays the minimal failing input / history without
// the explorer. They fail on the defective tree and pass on the repaired one.
package repro

import (
	"bytes"
	"crypto/ed25519"
	"errors"
	"io"
	"math"
	"runtime"
	"strings"
	"testing"
	"time"

	biscuit "github.com/biscuit-auth/biscuit-go/v2"
	"github.com/biscuit-auth/biscuit-go/v2/datalog"
	"github.com/biscuit-auth/biscuit-go/v2/parser"
)

type detRNG struct{ n byte }

func (d *detRNG) Read(p []byte) (int, error) {
	for i := range p {
		d.n++
		p[i] = d.n*31 + 7
	}
	return len(p), nil
}

func keys(seed byte) (ed25519.PublicKey, ed25519.PrivateKey) {
	s := bytes.Repeat([]byte{seed}, 32)
	priv := ed25519.NewKeyFromSeed(s)
	return priv.Public().(ed25519.PublicKey), priv
}

func fact(name string, ids ...biscuit.Term) biscuit.Fact {
	return biscuit.Fact{Predicate: biscuit.Predicate{Name: name, IDs: ids}}
}

func check1(name string, ids ...biscuit.Term) biscuit.Check {
	return biscuit.Check{Queries: []biscuit.Rule{{Head: biscuit.Predicate{Name: "query"}, Body: []biscuit.Predicate{{Name: name, IDs: ids}}}}}
}

var longOpts = biscuit.WithWorldOptions(datalog.WithMaxDuration(time.Hour))

// D1 (C08): two builders from one parent token must not see each other's symbols.
func TestD1SiblingBuildersIndependent(t *testing.T) {
	_, priv := keys(1)
	b := biscuit.NewBuilder(priv, biscuit.WithRNG(&detRNG{}))
	b.AddAuthorityFact(fact("s1", biscuit.String("s2"), biscuit.String("s3"))) // 3 fresh symbols: len 3 cap 4
	tok, err := b.Build()
	if err != nil {
		t.Fatal(err)
	}
	b0, b1 := tok.CreateBlock(), tok.CreateBlock()
	b0.AddCheck(check1("foo", biscuit.Integer(1)))
	b1.AddCheck(check1("bar", biscuit.Integer(1)))
	t0, err := tok.Append(&detRNG{}, b0.Build())
	if err != nil {
		t.Fatal(err)
	}
	ser, _ := t0.Serialize()
	re, err := biscuit.Unmarshal(ser)
	if err != nil {
		t.Fatal(err)
	}
	if !strings.Contains(re.String(), "foo(1)") || strings.Contains(re.String(), "bar(1)") {
		t.Fatalf("block built from b0 does not carry b0's check: %s", re.String())
	}
}

// D2 (C13): Reset must drop the facts of the previous request.
func TestD2ResetDropsPreviousRequest(t *testing.T) {
	pub, priv := keys(1)
	b := biscuit.NewBuilder(priv, biscuit.WithRNG(&detRNG{}))
	b.AddAuthorityCheck(check1("operation", biscuit.String("read")))
	tok, _ := b.Build()
	a, err := tok.AuthorizerFor(biscuit.WithSingularRootPublicKey(pub), longOpts)
	if err != nil {
		t.Fatal(err)
	}
	a.AddFact(fact("operation", biscuit.String("read")))
	a.AddPolicy(biscuit.DefaultAllowPolicy)
	if err := a.Authorize(); err != nil {
		t.Fatal(err)
	}
	a.Reset()
	a.AddFact(fact("operation", biscuit.String("write")))
	a.AddPolicy(biscuit.DefaultAllowPolicy)
	if err := a.Authorize(); err == nil {
		t.Fatal("write request accepted by a read-only token after Reset")
	}
}

// D4 (C16): the root key id survives Append and Seal.
func TestD4RootKeyIDTravels(t *testing.T) {
	_, priv := keys(1)
	b := biscuit.NewBuilder(priv, biscuit.WithRNG(&detRNG{}), biscuit.WithRootKeyID(7))
	tok, _ := b.Build()
	t1, err := tok.Append(&detRNG{}, tok.CreateBlock().Build())
	if err != nil {
		t.Fatal(err)
	}
	if id := t1.RootKeyID(); id == nil || *id != 7 {
		t.Fatalf("root key id after Append: %v", id)
	}
	t2, err := tok.Seal(&detRNG{})
	if err != nil {
		t.Fatal(err)
	}
	if id := t2.RootKeyID(); id == nil || *id != 7 {
		t.Fatalf("root key id after Seal: %v", id)
	}
}

type failRNG struct{ left int }

func (f *failRNG) Read(p []byte) (int, error) {
	if f.left <= 0 {
		return 0, errors.New("entropy exhausted")
	}
	n := len(p)
	if n > f.left {
		n = f.left
	}
	f.left -= n
	for i := 0; i < n; i++ {
		p[i] = 9
	}
	if n < len(p) {
		return n, errors.New("entropy exhausted")
	}
	return n, nil
}

// D5 (C20): a failing random source is an error, not a panic.
func TestD5EntropyFailure(t *testing.T) {
	_, priv := keys(1)
	func() {
		defer func() {
			if r := recover(); r != nil {
				t.Fatalf("Build panicked: %v", r)
			}
		}()
		tok, err := biscuit.NewBuilder(priv, biscuit.WithRNG(&failRNG{left: 5})).Build()
		if err == nil || tok != nil {
			t.Fatalf("Build with a failing RNG returned (%v, %v)", tok, err)
		}
	}()
	tok, _ := biscuit.NewBuilder(priv, biscuit.WithRNG(&detRNG{})).Build()
	func() {
		defer func() {
			if r := recover(); r != nil {
				t.Fatalf("Append panicked: %v", r)
			}
		}()
		t1, err := tok.Append(&failRNG{left: 0}, tok.CreateBlock().Build())
		if err == nil || t1 != nil {
			t.Fatalf("Append with a failing RNG returned (%v, %v)", t1, err)
		}
	}()
	var _ io.Reader = &failRNG{}
}

// D6 (C06)
func TestD6DivOverflow(t *testing.T) {
	e := datalog.Expression{datalog.Value{ID: datalog.Integer(math.MinInt64)}, datalog.Value{ID: datalog.Integer(-1)}, datalog.BinaryOp{BinaryOpFunc: datalog.Div{}}}
	if v, err := e.Evaluate(nil, &datalog.SymbolTable{}); err == nil {
		t.Fatalf("MinInt64 / -1 = %v, want an overflow error", v)
	}
}

// D7 (C06/C10)
func TestD7SetOfBytes(t *testing.T) {
	s := datalog.Set{datalog.Bytes{0}}
	for _, op := range []datalog.BinaryOpFunc{datalog.Equal{}, datalog.Union{}, datalog.Intersection{}} {
		e := datalog.Expression{datalog.Value{ID: s}, datalog.Value{ID: s}, datalog.BinaryOp{BinaryOpFunc: op}}
		func() {
			defer func() {
				if r := recover(); r != nil {
					t.Fatalf("%T on sets of bytes panicked: %v", op, r)
				}
			}()
			if _, err := e.Evaluate(nil, &datalog.SymbolTable{}); err != nil {
				t.Fatal(err)
			}
		}()
	}
}

// D8 (C10): a symbol index >= 2^63 must not panic when printed.
func TestD8HugeSymbolIndex(t *testing.T) {
	defer func() {
		if r := recover(); r != nil {
			t.Fatalf("Str panicked: %v", r)
		}
	}()
	st := &datalog.SymbolTable{"a"}
	_ = st.Str(datalog.String(1 << 63))
	_ = st.Str(datalog.String(math.MaxUint64))
}

// D10 (C11): Authorizer(root, opts...) honours its options.
func TestD10AuthorizerHonoursOptions(t *testing.T) {
	pub, priv := keys(1)
	b := biscuit.NewBuilder(priv, biscuit.WithRNG(&detRNG{}))
	for i := 0; i < 6; i++ {
		b.AddAuthorityFact(fact("f", biscuit.Integer(i)))
	}
	tok, _ := b.Build()
	a, err := tok.Authorizer(pub, biscuit.WithWorldOptions(datalog.WithMaxFacts(3), datalog.WithMaxDuration(time.Hour)))
	if err != nil {
		t.Fatal(err)
	}
	a.AddPolicy(biscuit.DefaultAllowPolicy)
	if err := a.Authorize(); !errors.Is(err, datalog.ErrWorldRunLimitMaxFacts) {
		t.Fatalf("Authorize with WithMaxFacts(3) on 6 facts: %v", err)
	}
}

func goroutinesSettle(base int) int {
	n := 0
	for i := 0; i < 200; i++ {
		runtime.Gosched()
		time.Sleep(time.Millisecond)
		n = runtime.NumGoroutine()
		if n <= base {
			return n
		}
	}
	return n
}

// D11a (C11): an invalid rule with two matches must not strand the producer goroutine.
func TestD11aInvalidRuleNoStrandedProducer(t *testing.T) {
	base := runtime.NumGoroutine()
	for i := 0; i < 20; i++ {
		w := datalog.NewWorld(datalog.WithMaxDuration(time.Hour))
		st := &datalog.SymbolTable{"p", "h", "x", "y"}
		w.AddFact(datalog.Fact{Predicate: datalog.Predicate{Name: 1024, Terms: []datalog.Term{datalog.Integer(1)}}})
		w.AddFact(datalog.Fact{Predicate: datalog.Predicate{Name: 1024, Terms: []datalog.Term{datalog.Integer(2)}}})
		w.AddRule(datalog.Rule{Head: datalog.Predicate{Name: 1025, Terms: []datalog.Term{datalog.Variable(1027)}}, Body: []datalog.Predicate{{Name: 1024, Terms: []datalog.Term{datalog.Variable(1026)}}}})
		if err := w.Run(st); err == nil {
			t.Fatal("invalid rule accepted")
		}
	}
	if n := goroutinesSettle(base); n > base {
		t.Fatalf("%d goroutines stranded after 20 evaluations", n-base)
	}
}

// D12 (C14): an unbound parameter inside an expression is a parse error, not a nil term.
func TestD12UnboundParameterInExpression(t *testing.T) {
	for _, src := range []string{`check if p($x), $x == {unbound}`, `check if p($x), $x < 2023-13-45T00:00:00Z`, `check if p($x), [$y].contains($x)`} {
		func() {
			defer func() {
				if r := recover(); r != nil {
					t.Fatalf("%s: panic %v", src, r)
				}
			}()
			c, err := parser.FromStringCheck(src)
			if err == nil {
				t.Errorf("%s: parsed without error", src)
				_, priv := keys(1)
				b := biscuit.NewBuilder(priv, biscuit.WithRNG(&detRNG{}))
				b.AddAuthorityCheck(c)
			}
		}()
	}
}

// D13 (C18/C10): an expression operator message without its kind must be an error, not a nil dereference.
func TestD13OperatorWithoutKind(t *testing.T) {
	// AuthorizerPolicies{version:3, policies:[{queries:[{head:{name:27}, expressions:[{ops:[{Binary:{}}]}]}], kind:Allow}]}
	op := []byte{0x1a, 0x00}                                               // Op.Binary = empty message (kind missing)
	expr := append([]byte{0x0a, byte(len(op))}, op...)                     // ExpressionV2.ops
	head := []byte{0x08, 27}                                               // PredicateV2.name = 27
	rule := append([]byte{0x0a, byte(len(head))}, head...)                 // RuleV2.head
	rule = append(rule, append([]byte{0x1a, byte(len(expr))}, expr...)...) // RuleV2.expressions
	pol := append([]byte{0x0a, byte(len(rule))}, rule...)                  // Policy.queries
	pol = append(pol, 0x10, 0x00)                                          // Policy.kind = Allow
	msg := append([]byte{0x10, 0x03}, append([]byte{0x32, byte(len(pol))}, pol...)...)
	_, priv := keys(1)
	tok, _ := biscuit.NewBuilder(priv, biscuit.WithRNG(&detRNG{})).Build()
	a, _ := biscuit.NewVerifier(tok)
	defer func() {
		if r := recover(); r != nil {
			t.Fatalf("LoadPolicies panicked: %v", r)
		}
	}()
	if err := a.LoadPolicies(msg); err == nil {
		t.Fatal("a binary operator without kind was accepted")
	}
}

// D14 (C18): once evaluation has been attempted the authorizer holds the token's facts;
// SerializePolicies must be refused even when that evaluation failed.
func TestD14SnapshotRefusedAfterFailedEvaluation(t *testing.T) {
	_, priv := keys(1)
	b := biscuit.NewBuilder(priv, biscuit.WithRNG(&detRNG{}))
	b.AddAuthorityFact(fact("n", biscuit.String("secret-of-the-token")))
	tok, _ := b.Build()
	a, _ := biscuit.NewVerifier(tok, longOpts)
	// big($x) <- n($x), $x > 1 : a type error on the token's string fact makes evaluation fail
	a.AddRule(biscuit.Rule{Head: biscuit.Predicate{Name: "big", IDs: []biscuit.Term{biscuit.Variable("x")}}, Body: []biscuit.Predicate{{Name: "n", IDs: []biscuit.Term{biscuit.Variable("x")}}},
		Expressions: []biscuit.Expression{{biscuit.Value{Term: biscuit.Variable("x")}, biscuit.Value{Term: biscuit.Integer(1)}, biscuit.BinaryGreaterThan}}})
	a.AddPolicy(biscuit.DefaultAllowPolicy)
	if err := a.Authorize(); err == nil {
		t.Fatal("expected an evaluation error")
	}
	if snap, err := a.SerializePolicies(); err == nil {
		t.Fatalf("snapshot allowed after a (failed) evaluation; it contains the token's fact: %v", bytes.Contains(snap, []byte("secret-of-the-token")))
	}
}

// D15 (C05): two clones of one world must not share storage for the facts they add.
func TestD15CloneSiblingsKeepTheirOwnFacts(t *testing.T) {
	syms := &datalog.SymbolTable{}
	p := func(n int64) datalog.Fact {
		return datalog.Fact{Predicate: datalog.Predicate{Name: datalog.String(syms.Insert("p")), Terms: []datalog.Term{datalog.Integer(n)}}}
	}
	base := datalog.NewWorld(datalog.WithMaxDuration(time.Hour))
	for i := int64(0); i < 3; i++ {
		base.AddFact(p(i)) // length 3, capacity 4: one spare slot
	}
	a, b := base.Clone(), base.Clone()
	a.AddFact(p(100))
	b.AddFact(p(200))
	if err := a.Run(syms); err != nil {
		t.Fatal(err)
	}
	for _, f := range *a.Facts() {
		if f.Predicate.Equal(p(100).Predicate) {
			return
		}
	}
	t.Fatalf("world A lost the fact it was given; it holds %v", *a.Facts())
}

// D16 (C14): GRAMMAR.md documents an integer as any base-10 int64; negative literals must parse.
func TestD16NegativeIntegerLiterals(t *testing.T) {
	f, err := parser.FromStringFact(`f(-3, [-4, 5])`)
	if err != nil {
		t.Fatalf("f(-3, [-4, 5]) rejected: %v", err)
	}
	if got := f.Predicate.IDs[0]; got != biscuit.Integer(-3) {
		t.Fatalf("first term is %v, want -3", got)
	}
	c, err := parser.FromStringCheck(`check if p($x), $x - 3 < -1, $x - -3 == 4`)
	if err != nil {
		t.Fatalf("check with negative literals rejected: %v", err)
	}
	// binary minus keeps its meaning: [$x 3 - -1 <] and [$x -3 - 4 ==]
	e := c.Queries[0].Expressions
	if len(e) != 2 || len(e[0]) != 5 || len(e[1]) != 5 {
		t.Fatalf("unexpected expression shape: %v", e)
	}
}

// D17 (C14): a byte literal with an odd number of digits is malformed wherever it stands; it used to be
// split into hex:1234 and the integer 5 and accepted as two terms of a predicate.
func TestD17OddLengthByteLiteral(t *testing.T) {
	for _, src := range []string{`f(hex:12345)`, `f(hex:123)`, `f("a", hex:1)`} {
		if f, err := parser.FromStringFact(src); err == nil {
			t.Fatalf("%s accepted as %v", src, f)
		}
	}
	if _, err := parser.FromStringCheck(`check if b($x, hex:12345)`); err == nil {
		t.Fatal("check with an odd-length byte literal accepted")
	}
	if _, err := parser.FromStringCheck(`check if b($x), $x == hex:12345`); err == nil {
		t.Fatal("expression with an odd-length byte literal accepted")
	}
	f, err := parser.FromStringFact(`f(hex:1234, 5)`)
	if err != nil || len(f.Predicate.IDs) != 2 {
		t.Fatalf("f(hex:1234, 5): %v %v", f, err)
	}
}
