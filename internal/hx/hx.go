// Package hx turns harness-level Datalog (refdl / refexpr values) into the
// library's builder-level API values, builds tokens deterministically, and
// classifies outcomes. It is glue only; no oracle lives here.
package hx

import (
	"crypto/ed25519"
	"errors"
	"fmt"
	"regexp"
	"sort"
	"strings"
	"time"

	biscuit "github.com/biscuit-auth/biscuit-go/v2"
	"github.com/biscuit-auth/biscuit-go/v2/datalog"

	"verif/internal/refdl"
	rx "verif/internal/refexpr"
)

func Term(v rx.Val) biscuit.Term {
	switch v.K {
	case rx.KInt:
		return biscuit.Integer(v.I)
	case rx.KStr:
		return biscuit.String(v.S)
	case rx.KDate:
		return biscuit.Date(time.Unix(int64(v.D), 0).UTC())
	case rx.KBytes:
		return biscuit.Bytes(v.B)
	case rx.KBool:
		return biscuit.Bool(v.Bo)
	case rx.KVar:
		return biscuit.Variable(v.S)
	case rx.KSet:
		s := make(biscuit.Set, 0, len(v.Set))
		for _, e := range v.Set {
			s = append(s, Term(e))
		}
		return s
	}
	panic("hx: bad kind")
}

// BackTerm converts a builder-level term returned by the library.
func BackTerm(t biscuit.Term) (rx.Val, error) {
	switch x := t.(type) {
	case biscuit.Integer:
		return rx.Int(int64(x)), nil
	case biscuit.String:
		return rx.Str(string(x)), nil
	case biscuit.Date:
		return rx.Date(uint64(time.Time(x).Unix())), nil
	case biscuit.Bytes:
		return rx.Bytes([]byte(x)), nil
	case biscuit.Bool:
		return rx.Bool(bool(x)), nil
	case biscuit.Variable:
		return rx.Var(string(x)), nil
	case biscuit.Set:
		var out []rx.Val
		for _, e := range x {
			v, err := BackTerm(e)
			if err != nil {
				return rx.Val{}, err
			}
			out = append(out, v)
		}
		return rx.SetOf(out...), nil
	}
	return rx.Val{}, fmt.Errorf("unexpected term %T", t)
}

func Pred(a refdl.Atom) biscuit.Predicate {
	p := biscuit.Predicate{Name: a.Name, IDs: make([]biscuit.Term, 0, len(a.Terms))}
	for _, t := range a.Terms {
		p.IDs = append(p.IDs, Term(t))
	}
	return p
}

func Fact(a refdl.Atom) biscuit.Fact { return biscuit.Fact{Predicate: Pred(a)} }

func BackFact(f biscuit.Fact) (refdl.Atom, error) {
	a := refdl.Atom{Name: f.Name}
	for _, t := range f.IDs {
		v, err := BackTerm(t)
		if err != nil {
			return a, err
		}
		a.Terms = append(a.Terms, v)
	}
	return a, nil
}

func unary(u rx.Unary) biscuit.Op {
	switch u {
	case rx.Negate:
		return biscuit.UnaryNegate
	case rx.Parens:
		return biscuit.UnaryParens
	case rx.Length:
		return biscuit.UnaryLength
	}
	panic("hx: unary")
}

func binary(b rx.Binary) biscuit.Op {
	switch b {
	case rx.LessThan:
		return biscuit.BinaryLessThan
	case rx.LessOrEqual:
		return biscuit.BinaryLessOrEqual
	case rx.GreaterThan:
		return biscuit.BinaryGreaterThan
	case rx.GreaterOrEqual:
		return biscuit.BinaryGreaterOrEqual
	case rx.Equal:
		return biscuit.BinaryEqual
	case rx.Contains:
		return biscuit.BinaryContains
	case rx.Prefix:
		return biscuit.BinaryPrefix
	case rx.Suffix:
		return biscuit.BinarySuffix
	case rx.Regex:
		return biscuit.BinaryRegex
	case rx.Add:
		return biscuit.BinaryAdd
	case rx.Sub:
		return biscuit.BinarySub
	case rx.Mul:
		return biscuit.BinaryMul
	case rx.Div:
		return biscuit.BinaryDiv
	case rx.And:
		return biscuit.BinaryAnd
	case rx.Or:
		return biscuit.BinaryOr
	case rx.Intersection:
		return biscuit.BinaryIntersection
	case rx.Union:
		return biscuit.BinaryUnion
	}
	panic("hx: binary")
}

func Expr(ops []rx.Op) biscuit.Expression {
	e := make(biscuit.Expression, 0, len(ops))
	for _, o := range ops {
		switch o.Kind {
		case rx.OpValue:
			e = append(e, biscuit.Value{Term: Term(o.V)})
		case rx.OpUnary:
			e = append(e, unary(o.U))
		case rx.OpBinary:
			e = append(e, binary(o.B))
		}
	}
	return e
}

func Rule(r refdl.Rule) biscuit.Rule {
	out := biscuit.Rule{Head: Pred(r.Head), Body: make([]biscuit.Predicate, 0, len(r.Body)), Expressions: make([]biscuit.Expression, 0, len(r.Exprs))}
	for _, a := range r.Body {
		out.Body = append(out.Body, Pred(a))
	}
	for _, e := range r.Exprs {
		out.Expressions = append(out.Expressions, Expr(e))
	}
	return out
}

func Check(c refdl.Check) biscuit.Check {
	out := biscuit.Check{}
	for _, q := range c.Queries {
		out.Queries = append(out.Queries, Rule(q))
	}
	return out
}

func Policy(p refdl.Policy) biscuit.Policy {
	out := biscuit.Policy{Kind: biscuit.PolicyKindDeny}
	if p.Allow {
		out.Kind = biscuit.PolicyKindAllow
	}
	for _, q := range p.Queries {
		out.Queries = append(out.Queries, Rule(q))
	}
	return out
}

// Query builds a refdl query rule (head "query()").
func Query(body []refdl.Atom, exprs ...[]rx.Op) refdl.Rule {
	return refdl.Rule{Head: refdl.A("query"), Body: body, Exprs: exprs}
}

// RNG is a deterministic byte stream.
type RNG struct{ s uint64 }

func NewRNG(seed uint64) *RNG { return &RNG{s: seed*0x9E3779B97F4A7C15 + 0x1234567} }

func (r *RNG) Read(p []byte) (int, error) {
	for i := range p {
		r.s ^= r.s << 13
		r.s ^= r.s >> 7
		r.s ^= r.s << 17
		p[i] = byte(r.s >> 24)
	}
	return len(p), nil
}

// Keys derives a key pair from a one-byte seed.
func Keys(seed byte) (ed25519.PublicKey, ed25519.PrivateKey) {
	s := make([]byte, 32)
	for i := range s {
		s[i] = seed ^ byte(i*7)
	}
	priv := ed25519.NewKeyFromSeed(s)
	return priv.Public().(ed25519.PublicKey), priv
}

// FillBuilder adds a block's content to an authority builder.
func FillBuilder(b biscuit.Builder, blk refdl.Block) error {
	for _, f := range blk.Facts {
		if err := b.AddAuthorityFact(Fact(f)); err != nil {
			return err
		}
	}
	for _, r := range blk.Rules {
		if err := b.AddAuthorityRule(Rule(r)); err != nil {
			return err
		}
	}
	for _, c := range blk.Checks {
		if err := b.AddAuthorityCheck(Check(c)); err != nil {
			return err
		}
	}
	if blk.Context != "" {
		b.SetContext(blk.Context)
	}
	return nil
}

func FillBlock(b biscuit.BlockBuilder, blk refdl.Block) error {
	for _, f := range blk.Facts {
		if err := b.AddFact(Fact(f)); err != nil {
			return err
		}
	}
	for _, r := range blk.Rules {
		if err := b.AddRule(Rule(r)); err != nil {
			return err
		}
	}
	for _, c := range blk.Checks {
		if err := b.AddCheck(Check(c)); err != nil {
			return err
		}
	}
	if blk.Context != "" {
		b.SetContext(blk.Context)
	}
	return nil
}

// FillBlockParsed adds the same content in one AddBlock(ParsedBlock) call (the route the text parser's
// results take) instead of one Add call per element.
func FillBlockParsed(b biscuit.BlockBuilder, blk refdl.Block) error {
	var pb biscuit.ParsedBlock
	for _, f := range blk.Facts {
		pb.Facts = append(pb.Facts, Fact(f))
	}
	for _, r := range blk.Rules {
		pb.Rules = append(pb.Rules, Rule(r))
	}
	for _, c := range blk.Checks {
		pb.Checks = append(pb.Checks, Check(c))
	}
	if err := b.AddBlock(pb); err != nil {
		return err
	}
	if blk.Context != "" {
		b.SetContext(blk.Context)
	}
	return nil
}

// Token builds authority + blocks with deterministic randomness.
func Token(rootSeed byte, rngSeed uint64, authority refdl.Block, blocks []refdl.Block, opts ...interface{}) (*biscuit.Biscuit, error) {
	_, priv := Keys(rootSeed)
	b := biscuit.NewBuilder(priv, biscuit.WithRNG(NewRNG(rngSeed)))
	if err := FillBuilder(b, authority); err != nil {
		return nil, err
	}
	tok, err := b.Build()
	if err != nil {
		return nil, err
	}
	for i, blk := range blocks {
		bb := tok.CreateBlock()
		if err := FillBlock(bb, blk); err != nil {
			return nil, err
		}
		tok, err = tok.Append(NewRNG(rngSeed+uint64(i)+1), bb.Build())
		if err != nil {
			return nil, err
		}
	}
	return tok, nil
}

// LongLimits: the wall clock never decides anything (DESIGN §3 rule 1).
var LongLimits = biscuit.WithWorldOptions(datalog.WithMaxDuration(time.Hour))

// Authorizer creates an authorizer without signature verification and loads content.
func Authorizer(tok *biscuit.Biscuit, auth refdl.Block, policies []refdl.Policy, opts ...biscuit.AuthorizerOption) (biscuit.Authorizer, error) {
	if len(opts) == 0 {
		opts = []biscuit.AuthorizerOption{LongLimits}
	}
	a, err := biscuit.NewVerifier(tok, opts...)
	if err != nil {
		return nil, err
	}
	Load(a, auth, policies)
	return a, nil
}

// Load adds content to an authorizer.
func Load(a biscuit.Authorizer, auth refdl.Block, policies []refdl.Policy) {
	for _, f := range auth.Facts {
		a.AddFact(Fact(f))
	}
	for _, r := range auth.Rules {
		a.AddRule(Rule(r))
	}
	for _, c := range auth.Checks {
		a.AddCheck(Check(c))
	}
	for _, p := range policies {
		a.AddPolicy(Policy(p))
	}
}

// Outcome classes of Authorize as the property observes them.
const (
	OK      = "ok"
	Denied  = "denied"
	NoMatch = "no-match"
	Limit   = "limit"
	Other   = "other-failure"
)

func Classify(err error) string {
	switch {
	case err == nil:
		return OK
	case errors.Is(err, biscuit.ErrPolicyDenied):
		return Denied
	case errors.Is(err, biscuit.ErrNoMatchingPolicy):
		return NoMatch
	case errors.Is(err, datalog.ErrWorldRunLimitMaxFacts), errors.Is(err, datalog.ErrWorldRunLimitMaxIterations), errors.Is(err, datalog.ErrWorldRunLimitTimeout):
		return Limit
	}
	return Other
}

// RefClass maps the reference decision to the observable class.
func RefClass(d refdl.Decision) string {
	switch d.Class {
	case refdl.OK:
		return OK
	case refdl.Denied:
		return Denied
	case refdl.NoMatch:
		return NoMatch
	case refdl.Limit:
		return Limit
	}
	return Other
}

var failedRe = regexp.MustCompile(`failed to verify (block #?(\d+) )?check #(\d+)`)

// FailedChecks extracts which checks the error message names (the list is an
// API observable: users log it). It returns nil when nothing can be parsed.
func FailedChecks(err error) []string {
	if err == nil {
		return nil
	}
	var out []string
	for _, m := range failedRe.FindAllStringSubmatch(err.Error(), -1) {
		if m[1] == "" {
			out = append(out, "authorizer#"+m[3])
		} else {
			out = append(out, "block"+m[2]+"#"+m[3])
		}
	}
	sort.Strings(out)
	return out
}

// QuerySet runs a query and returns the result as a canonical sorted list.
func QuerySet(a biscuit.Authorizer, q refdl.Rule) ([]string, error) {
	fs, err := a.Query(Rule(q))
	if err != nil {
		return nil, err
	}
	seen := map[string]bool{}
	var out []string
	for _, f := range fs {
		at, err := BackFact(f)
		if err != nil {
			return nil, err
		}
		k := at.Key()
		if !seen[k] {
			seen[k] = true
			out = append(out, k)
		}
	}
	sort.Strings(out)
	return out, nil
}

func JoinKeys(ks []string) string { return "{" + strings.Join(ks, " ") + "}" }
