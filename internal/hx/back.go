package hx

import (
	"fmt"

	biscuit "github.com/biscuit-auth/biscuit-go/v2"

	"verif/internal/refdl"
	rx "verif/internal/refexpr"
)

// Back-conversions of builder-level values (as returned by the parser) into
// harness-level values, for structural comparison.

func BackPred(p biscuit.Predicate) (refdl.Atom, error) {
	a := refdl.Atom{Name: p.Name}
	for _, t := range p.IDs {
		if t == nil {
			return a, fmt.Errorf("nil term in predicate %s", p.Name)
		}
		v, err := BackTerm(t)
		if err != nil {
			return a, err
		}
		a.Terms = append(a.Terms, v)
	}
	return a, nil
}

func BackExpr(e biscuit.Expression) ([]rx.Op, error) {
	var out []rx.Op
	for _, o := range e {
		switch x := o.(type) {
		case biscuit.Value:
			if x.Term == nil {
				return nil, fmt.Errorf("nil term in expression")
			}
			v, err := BackTerm(x.Term)
			if err != nil {
				return nil, err
			}
			out = append(out, rx.Op{Kind: rx.OpValue, V: v})
		case biscuit.UnaryOp:
			switch x {
			case biscuit.UnaryNegate:
				out = append(out, rx.Op{Kind: rx.OpUnary, U: rx.Negate})
			case biscuit.UnaryParens:
				out = append(out, rx.Op{Kind: rx.OpUnary, U: rx.Parens})
			case biscuit.UnaryLength:
				out = append(out, rx.Op{Kind: rx.OpUnary, U: rx.Length})
			default:
				return nil, fmt.Errorf("unknown unary op %v", x)
			}
		case biscuit.BinaryOp:
			m := map[biscuit.BinaryOp]rx.Binary{
				biscuit.BinaryLessThan: rx.LessThan, biscuit.BinaryLessOrEqual: rx.LessOrEqual, biscuit.BinaryGreaterThan: rx.GreaterThan, biscuit.BinaryGreaterOrEqual: rx.GreaterOrEqual,
				biscuit.BinaryEqual: rx.Equal, biscuit.BinaryContains: rx.Contains, biscuit.BinaryPrefix: rx.Prefix, biscuit.BinarySuffix: rx.Suffix, biscuit.BinaryRegex: rx.Regex,
				biscuit.BinaryAdd: rx.Add, biscuit.BinarySub: rx.Sub, biscuit.BinaryMul: rx.Mul, biscuit.BinaryDiv: rx.Div, biscuit.BinaryAnd: rx.And, biscuit.BinaryOr: rx.Or,
				biscuit.BinaryIntersection: rx.Intersection, biscuit.BinaryUnion: rx.Union,
			}
			b, ok := m[x]
			if !ok {
				return nil, fmt.Errorf("unknown binary op %v", x)
			}
			out = append(out, rx.Op{Kind: rx.OpBinary, B: b})
		case nil:
			return nil, fmt.Errorf("nil op in expression")
		default:
			return nil, fmt.Errorf("unknown op %T", o)
		}
	}
	return out, nil
}

func BackRule(r biscuit.Rule) (refdl.Rule, error) {
	var out refdl.Rule
	h, err := BackPred(r.Head)
	if err != nil {
		return out, err
	}
	out.Head = h
	for _, p := range r.Body {
		a, err := BackPred(p)
		if err != nil {
			return out, err
		}
		out.Body = append(out.Body, a)
	}
	for _, e := range r.Expressions {
		ops, err := BackExpr(e)
		if err != nil {
			return out, err
		}
		out.Exprs = append(out.Exprs, ops)
	}
	return out, nil
}

func BackCheck(c biscuit.Check) (refdl.Check, error) {
	var out refdl.Check
	for _, q := range c.Queries {
		r, err := BackRule(q)
		if err != nil {
			return out, err
		}
		out.Queries = append(out.Queries, r)
	}
	return out, nil
}

func BackPolicy(p biscuit.Policy) (refdl.Policy, error) {
	out := refdl.Policy{Allow: p.Kind == biscuit.PolicyKindAllow}
	for _, q := range p.Queries {
		r, err := BackRule(q)
		if err != nil {
			return out, err
		}
		out.Queries = append(out.Queries, r)
	}
	return out, nil
}

func BackBlock(b biscuit.ParsedBlock) (refdl.Block, error) {
	var out refdl.Block
	for _, f := range b.Facts {
		a, err := BackPred(f.Predicate)
		if err != nil {
			return out, err
		}
		out.Facts = append(out.Facts, a)
	}
	for _, r := range b.Rules {
		x, err := BackRule(r)
		if err != nil {
			return out, err
		}
		out.Rules = append(out.Rules, x)
	}
	for _, c := range b.Checks {
		x, err := BackCheck(c)
		if err != nil {
			return out, err
		}
		out.Checks = append(out.Checks, x)
	}
	return out, nil
}
