package vsched

import "time"

// Timer is a virtual timer: a pseudo-thread whose only step is to fire. When
// it fires relative to the program's progress is a scheduler choice.
type Timer struct {
	armed  bool
	fired  bool
	onFire func()
	d      time.Duration
}

// NewTimer arms a virtual timer; onFire runs (atomically) when the scheduler fires it.
func NewTimer(d time.Duration, onFire func()) *Timer {
	tm := &Timer{armed: true, onFire: onFire, d: d}
	t := &thread{id: len(s.threads), name: "timer", timer: tm}
	s.threads = append(s.threads, t)
	return tm
}

// Stop disarms the timer; it reports whether the timer was still armed.
func (t *Timer) Stop() bool {
	was := t.armed
	t.armed = false
	return was
}

func (t *Timer) Fired() bool { return t.fired }

// After replaces time.After: the returned channel receives once the virtual timer fires.
func After(d time.Duration) *Chan[time.Time] {
	c := MakeChan[time.Time](1)
	NewTimer(d, func() { c.core.buf = append(c.core.buf, time.Time{}) })
	return c
}

// Sleep replaces time.Sleep.
func Sleep(d time.Duration) { After(d).Recv1() }
