//go:build vsched

// Package vctx is the subset of package context used by the library, on top of
// the virtual scheduler: WithTimeout / WithDeadline create a virtual timer.
package vctx

import (
	"errors"
	"time"

	"github.com/biscuit-auth/biscuit-go/v2/vsched"
)

var (
	Canceled         = errors.New("context canceled")
	DeadlineExceeded = errors.New("context deadline exceeded")
)

type CancelFunc func()

type Context interface {
	Done() *vsched.Chan[struct{}]
	Err() error
}

type background struct{}

func (background) Done() *vsched.Chan[struct{}] { return nil }
func (background) Err() error                   { return nil }

func Background() Context { return background{} }
func TODO() Context       { return background{} }

type cancelCtx struct {
	done   *vsched.Chan[struct{}]
	err    error
	timer  *vsched.Timer
	closed bool
}

func (c *cancelCtx) Done() *vsched.Chan[struct{}] { return c.done }
func (c *cancelCtx) Err() error                   { return c.err }

func (c *cancelCtx) finish(err error) {
	if c.closed {
		return
	}
	c.closed = true
	c.err = err
	vsched.CloseNow(c.done)
}

// WithCancel: parent cancellation is not propagated (the library only derives from Background).
func WithCancel(parent Context) (Context, CancelFunc) {
	c := &cancelCtx{done: vsched.MakeChan[struct{}](0)}
	return c, func() { c.finish(Canceled) }
}

func WithTimeout(parent Context, d time.Duration) (Context, CancelFunc) {
	c := &cancelCtx{done: vsched.MakeChan[struct{}](0)}
	c.timer = vsched.NewTimer(d, func() { c.finish(DeadlineExceeded) })
	return c, func() {
		c.timer.Stop()
		c.finish(Canceled)
	}
}

func WithDeadline(parent Context, t time.Time) (Context, CancelFunc) {
	return WithTimeout(parent, time.Until(t))
}
