// Package vsched is a cooperative scheduler with virtual channels, timers and
// goroutines, used to explore exhaustively (within a deviation bound) the
// schedules of the real datalog package. The library source is rewritten
// (tools/rewrite) so that every channel operation, go statement, select and
// context timer goes through this package; exactly one logical thread runs at
// a time and every operation is a scheduling point taken BEFORE the operation.
//
// The package is mounted into the module under check as
// github.com/biscuit-auth/biscuit-go/v2/vsched through `go build -overlay`, so
// the rewritten library and the harness share one scheduler instance. It must
// compile at the module's language level (go 1.19).
package vsched

import (
	"fmt"
	"runtime"
	"strings"
)

type opKind int

const (
	opStart opKind = iota
	opSend
	opRecv
	opSelect
	opClose
	opYield
	opLock
	opRLock
	opWait
)

var opNames = [...]string{"start", "send", "recv", "select", "close", "yield", "lock", "rlock", "wait"}

// chanCore is the untyped state of a virtual channel.
type chanCore struct {
	id     int
	cap    int
	buf    []interface{}
	closed bool
	name   string
}

type selCase struct {
	send bool
	ch   *chanCore
	val  interface{}
	// results of a receive
	rval interface{}
	rok  bool
}

type op struct {
	kind opKind
	ch   *chanCore
	val  interface{}
	rval interface{}
	rok  bool
	// select
	cases      []*selCase
	hasDefault bool
	chosen     int
	// lock / waitgroup
	mu *Mutex
	rw *RWMutex
	wg *WaitGroup
}

type thread struct {
	id        int
	name      string
	wake      chan struct{}
	op        *op
	completed bool // the pending operation was completed by a partner
	finished  bool
	started   bool
	abort     bool
	fn        func()
	timer     *Timer // timer pseudo-thread: no goroutine
	panicVal  interface{}
	panicStk  string
}

func (t *thread) isTimer() bool { return t.timer != nil }

// PointKind says what was chosen at a choice point.
type PointKind int

const (
	PSchedule PointKind = iota // which thread runs next
	PSelect                    // which ready case of a select
	PPartner                   // which of several rendezvous partners
)

// Point is one choice point of an execution.
type Point struct {
	Kind   PointKind
	N      int   // number of alternatives
	Costs  []int // deviation cost of each alternative (alternative 0 costs 0)
	Chosen int
	Desc   string // alternatives, written out (only when tracing)
}

// Exec is the record of one execution.
type Exec struct {
	Points     []Point
	Stranded   []string // threads blocked forever at quiescence
	Panics     []string // panics on any thread (value + top frames)
	TimerFired int      // number of timers that fired
	Steps      int
	Trace      []string
	Threads    int
	Diverged   string // non-empty: replaying the prefix was impossible
}

// Choices returns the choice list that identifies the execution.
func (x *Exec) Choices() []int {
	c := make([]int, len(x.Points))
	for i, p := range x.Points {
		c[i] = p.Chosen
	}
	return c
}

// Sched is the scheduler. One instance, one execution at a time.
type Sched struct {
	threads  []*thread
	cur      *thread
	chans    int
	prefix   []int
	exec     *Exec
	done     chan struct{}
	trace    bool
	aborting bool
	ack      chan struct{}
	stepCap  int
	// Horizon: executions longer than this many choice points are cut (reported by the explorer).
	horizon bool
}

var s = &Sched{}

// FireTimersOnlyWhenIdle removes "a timer fires now" from the alternatives as
// long as some program thread can run (used by checks whose property is not
// about timeouts: virtual time then never runs out under a running program).
var FireTimersOnlyWhenIdle = false

// CountSwitchChoiceAtBlock: when the running thread blocks or ends, the default is
// to continue with the lowest-numbered runnable thread; with this flag every
// other choice costs one deviation (by default such choices are free, as in
// preemption bounding). Harnesses with several independent task groups use it
// to keep the bounded space finite in practice.
var CountSwitchChoiceAtBlock = false

type abortSentinel struct{}

func (sc *Sched) newThread(name string, fn func()) *thread {
	t := &thread{id: len(sc.threads), name: name, wake: make(chan struct{}, 1), fn: fn, op: &op{kind: opStart}}
	sc.threads = append(sc.threads, t)
	return t
}

func (sc *Sched) tracef(format string, a ...interface{}) {
	if sc.trace {
		sc.exec.Trace = append(sc.exec.Trace, fmt.Sprintf(format, a...))
	}
}

// ---- enabledness ---------------------------------------------------------------------

func (sc *Sched) hasPendingRecv(c *chanCore, except *thread) bool {
	for _, t := range sc.threads {
		if t == except || t.finished || t.op == nil || t.completed {
			continue
		}
		switch t.op.kind {
		case opRecv:
			if t.op.ch == c {
				return true
			}
		case opSelect:
			for _, cs := range t.op.cases {
				if !cs.send && cs.ch == c {
					return true
				}
			}
		}
	}
	return false
}

func (sc *Sched) hasPendingSend(c *chanCore, except *thread) bool {
	for _, t := range sc.threads {
		if t == except || t.finished || t.op == nil || t.completed {
			continue
		}
		switch t.op.kind {
		case opSend:
			if t.op.ch == c {
				return true
			}
		case opSelect:
			for _, cs := range t.op.cases {
				if cs.send && cs.ch == c {
					return true
				}
			}
		}
	}
	return false
}

func (sc *Sched) sendReady(c *chanCore, t *thread) bool {
	if c == nil {
		return false // send on a nil channel blocks forever
	}
	return c.closed || len(c.buf) < c.cap || sc.hasPendingRecv(c, t)
}

func (sc *Sched) recvReady(c *chanCore, t *thread) bool {
	if c == nil {
		return false
	}
	return c.closed || len(c.buf) > 0 || sc.hasPendingSend(c, t)
}

func (sc *Sched) enabled(t *thread) bool {
	if t.finished {
		return false
	}
	if t.isTimer() {
		return t.timer.armed
	}
	if t.completed || t.op == nil {
		return true
	}
	o := t.op
	switch o.kind {
	case opStart, opYield, opClose:
		return true
	case opSend:
		return sc.sendReady(o.ch, t)
	case opRecv:
		return sc.recvReady(o.ch, t)
	case opSelect:
		if o.hasDefault {
			return true
		}
		for _, cs := range o.cases {
			if cs.send && sc.sendReady(cs.ch, t) || !cs.send && sc.recvReady(cs.ch, t) {
				return true
			}
		}
		return false
	case opLock:
		if o.mu != nil {
			return !o.mu.locked
		}
		return !o.rw.w && o.rw.r == 0
	case opRLock:
		return !o.rw.w
	case opWait:
		return o.wg.n <= 0
	}
	return false
}

// ---- choices -----------------------------------------------------------------------------

func (sc *Sched) choose(kind PointKind, n int, costs []int, desc func() string) int {
	if n <= 1 {
		return 0
	}
	i := len(sc.exec.Points)
	c := 0
	if i < len(sc.prefix) {
		c = sc.prefix[i]
		if c < 0 || c >= n {
			sc.exec.Diverged = fmt.Sprintf("choice %d of the prefix is %d but the point has %d alternatives", i, c, n)
			c = 0
		}
	}
	p := Point{Kind: kind, N: n, Costs: costs, Chosen: c}
	if sc.trace && desc != nil {
		p.Desc = desc()
	}
	sc.exec.Points = append(sc.exec.Points, p)
	if sc.stepCap > 0 && len(sc.exec.Points) > sc.stepCap {
		sc.horizon = true
	}
	return c
}

// pickNext returns the thread to run next (nil when nothing is enabled).
// Canonical order: the running thread first if still enabled, then the other
// program threads by id, then timers.
func (sc *Sched) pickNext(running *thread) *thread {
	var list []*thread
	runningEnabled := running != nil && !running.finished && sc.enabled(running)
	if runningEnabled {
		list = append(list, running)
	}
	for _, t := range sc.threads {
		if t != running && !t.isTimer() && sc.enabled(t) {
			list = append(list, t)
		}
	}
	nprog := len(list)
	for _, t := range sc.threads {
		if t.isTimer() && sc.enabled(t) && !(FireTimersOnlyWhenIdle && nprog > 0) {
			list = append(list, t)
		}
	}
	if len(list) == 0 {
		return nil
	}
	costs := make([]int, len(list))
	for i := 1; i < len(list); i++ {
		switch {
		case runningEnabled:
			costs[i] = 1 // switching away from a runnable thread is a preemption; so is firing a timer under it
		case i >= nprog && nprog > 0:
			costs[i] = 1 // a timer fires although program threads can run
		case CountSwitchChoiceAtBlock:
			costs[i] = 1 // the running thread blocked: running another than the first runnable thread is a deviation
		}
	}
	c := sc.choose(PSchedule, len(list), costs, func() string {
		var n []string
		for _, t := range list {
			n = append(n, sc.describe(t))
		}
		return strings.Join(n, " | ")
	})
	return list[c]
}

func (sc *Sched) describe(t *thread) string {
	if t.isTimer() {
		return fmt.Sprintf("timer%d:fire", t.id)
	}
	if t.op == nil {
		return fmt.Sprintf("T%d(%s):run", t.id, t.name)
	}
	st := opNames[t.op.kind]
	if t.completed {
		st += "(completed)"
	}
	if t.op.ch != nil {
		st += fmt.Sprintf("#%d", t.op.ch.id)
	}
	return fmt.Sprintf("T%d(%s):%s", t.id, t.name, st)
}

// ---- switching ------------------------------------------------------------------------------

// yieldFrom is called by the running thread t at a scheduling point (its
// pending operation is registered). It returns when t has been chosen to run.
func (sc *Sched) yieldFrom(t *thread) {
	if sc.aborting {
		// the execution is over and this thread is being unwound: operations performed by
		// its deferred functions must not block again
		panic(abortSentinel{})
	}
	for {
		sc.exec.Steps++
		next := sc.pickNext(t)
		if next == nil {
			// nothing can run, t included: t is blocked forever unless woken
			sc.finishExecution()
			sc.park(t)
			return
		}
		if next == t {
			return
		}
		if next.isTimer() {
			sc.fire(next)
			continue
		}
		sc.cur = next
		sc.tracef("switch T%d -> %s", t.id, sc.describe(next))
		sc.resume(next)
		sc.park(t)
		return
	}
}

func (sc *Sched) resume(t *thread) {
	if !t.started {
		t.started = true
		go sc.threadMain(t)
		return
	}
	t.wake <- struct{}{}
}

func (sc *Sched) park(t *thread) {
	<-t.wake
	if t.abort {
		panic(abortSentinel{})
	}
}

func (sc *Sched) fire(tt *thread) {
	tm := tt.timer
	tm.armed = false
	tm.fired = true
	tt.finished = true
	sc.exec.TimerFired++
	sc.tracef("timer%d fires", tt.id)
	if tm.onFire != nil {
		tm.onFire()
	}
}

// exitThread is called when a thread's function returned (or panicked).
func (sc *Sched) exitThread(t *thread) {
	t.finished = true
	t.op = nil
	for {
		sc.exec.Steps++
		next := sc.pickNext(nil)
		if next == nil {
			sc.finishExecution()
			return
		}
		if next.isTimer() {
			sc.fire(next)
			continue
		}
		sc.cur = next
		sc.resume(next)
		return
	}
}

func (sc *Sched) finishExecution() {
	if sc.aborting {
		return
	}
	sc.aborting = true
	for _, t := range sc.threads {
		if !t.isTimer() && !t.finished {
			sc.exec.Stranded = append(sc.exec.Stranded, sc.describe(t)+" created at: "+t.name)
		}
	}
	close(sc.done)
}

func (sc *Sched) threadMain(t *thread) {
	defer func() {
		r := recover()
		if _, isAbort := r.(abortSentinel); isAbort {
			sc.ack <- struct{}{}
			return
		}
		if r != nil {
			buf := make([]byte, 8192)
			buf = buf[:runtime.Stack(buf, false)]
			t.panicVal = r
			t.panicStk = string(buf)
			sc.exec.Panics = append(sc.exec.Panics, fmt.Sprintf("T%d(%s): %v\n%s", t.id, t.name, r, trimStack(string(buf))))
		}
		if sc.aborting {
			sc.ack <- struct{}{}
			return
		}
		sc.exitThread(t)
	}()
	// the thread was chosen to run: its start "operation" is done
	t.op = nil
	t.fn()
}

func trimStack(st string) string {
	lines := strings.Split(st, "\n")
	var keep []string
	for i := 0; i < len(lines); i++ {
		if strings.Contains(lines[i], "vsched.") || strings.Contains(lines[i], "runtime/panic.go") || strings.Contains(lines[i], "/vsched/") {
			continue
		}
		keep = append(keep, lines[i])
		if len(keep) > 16 {
			break
		}
	}
	return strings.Join(keep, "\n")
}

// Run executes body as thread 0 under the scheduler, following prefix and then
// taking alternative 0 at every later choice point. It returns when no thread
// can run any more; threads that are then still alive are reported as stranded
// and unwound.
func Run(prefix []int, trace bool, stepCap int, body func()) *Exec {
	s = &Sched{prefix: prefix, exec: &Exec{}, done: make(chan struct{}), trace: trace, ack: make(chan struct{}, 64), stepCap: stepCap}
	sc := s
	t0 := sc.newThread("caller", body)
	sc.cur = t0
	sc.resume(t0)
	<-sc.done
	// unwind the threads that are blocked forever
	n := 0
	for _, t := range sc.threads {
		if !t.isTimer() && t.started && !t.finished {
			t.abort = true
			t.wake <- struct{}{}
			n++
		}
	}
	for i := 0; i < n; i++ {
		<-sc.ack
	}
	sc.exec.Threads = len(sc.threads)
	return sc.exec
}

// Go starts f as a new logical thread. The spawning thread then yields: the
// child may run first.
func Go(f func()) {
	sc := s
	t := sc.cur
	name := "go"
	if pc, _, _, ok := runtime.Caller(1); ok {
		if fn := runtime.FuncForPC(pc); fn != nil {
			n := fn.Name()
			if i := strings.LastIndex(n, "/"); i >= 0 {
				n = n[i+1:]
			}
			// strip closure suffixes: datalog.(*World).Run.func1 -> datalog.(*World).Run
			for strings.Contains(n, ".func") {
				n = n[:strings.LastIndex(n, ".func")]
			}
			name = "goroutine started in " + n
		}
	}
	sc.newThread(name, f)
	t.op = &op{kind: opYield}
	t.completed = false
	sc.yieldFrom(t)
	t.op = nil
}

// Yield is an explicit scheduling point.
func Yield() {
	sc := s
	t := sc.cur
	t.op = &op{kind: opYield}
	t.completed = false
	sc.yieldFrom(t)
	t.op = nil
}

// FiredTimers reports how many virtual timers have fired so far in this execution.
func FiredTimers() int { return s.exec.TimerFired }

// Steps reports the number of scheduling steps so far.
func Steps() int { return s.exec.Steps }
