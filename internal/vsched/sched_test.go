package vsched

import (
	"testing"
	"time"
)

func TestProducerConsumer(t *testing.T) {
	var got []int
	body := func() {
		c := MakeChan[int](0)
		Go(func() {
			for i := 0; i < 3; i++ {
				c.Send(i)
			}
			c.Close()
		})
		got = nil
		for {
			v, ok := c.Recv2()
			if !ok {
				break
			}
			got = append(got, v)
		}
	}
	for _, b := range []int{0, 1, 2} {
		st := Explore(b, 0, 0, body, func(x *Exec) bool {
			if len(x.Stranded) > 0 || len(x.Panics) > 0 {
				t.Fatalf("bound %d: stranded %v panics %v", b, x.Stranded, x.Panics)
			}
			if len(got) != 3 || got[0] != 0 || got[2] != 2 {
				t.Fatalf("got %v", got)
			}
			return true
		})
		t.Logf("bound %d: %d executions, max points %d", b, st.Executions, st.MaxPoints)
	}
}

func TestStrandedSender(t *testing.T) {
	body := func() {
		c := MakeChan[int](0)
		Go(func() {
			c.Send(1)
			c.Send(2) // nobody receives the second value
		})
		c.Recv1()
	}
	x := Run(nil, true, 0, body)
	if len(x.Stranded) != 1 {
		t.Fatalf("stranded: %v trace %v", x.Stranded, x.Trace)
	}
}

func TestTimerRace(t *testing.T) {
	// Run-like shape: worker sends on an unbuffered channel, caller selects on timer and result
	outcomes := map[string]int{}
	stranded := 0
	body := func() {
		done := MakeChan[int](0)
		tmc := MakeChan[struct{}](0)
		tm := NewTimer(time.Millisecond, func() { CloseNow(tmc) })
		Go(func() { done.Send(1) })
		a, b := RecvCase(tmc), RecvCase(done)
		switch Select(false, a, b) {
		case 0:
			outcomes["timeout"]++
		case 1:
			outcomes["value"]++
		}
		tm.Stop()
	}
	st := Explore(2, 0, 0, body, func(x *Exec) bool {
		stranded += len(x.Stranded)
		return true
	})
	t.Logf("%d executions, outcomes %v, stranded %d", st.Executions, outcomes, stranded)
	if outcomes["timeout"] == 0 || outcomes["value"] == 0 || stranded == 0 {
		t.Fatalf("expected both outcomes and a stranded worker: %v %d", outcomes, stranded)
	}
}
