//go:build vsched

// Package vsync is the subset of package sync on top of the virtual scheduler.
package vsync

import (
	"sync"

	"github.com/biscuit-auth/biscuit-go/v2/vsched"
)

type Mutex = vsched.Mutex
type RWMutex = vsched.RWMutex
type WaitGroup = vsched.WaitGroup
type Once = vsched.Once
type Locker interface {
	Lock()
	Unlock()
}

// Map and Pool never block a caller for longer than an internal critical section, and under
// the cooperative scheduler only one logical thread runs at a time: the real types are used as
// they are (their operations are not scheduling points).
type Map = sync.Map
type Pool = sync.Pool
