//go:build vsched

// Package vsync is the subset of package sync on top of the virtual scheduler.
package vsync

import "github.com/biscuit-auth/biscuit-go/v2/vsched"

type Mutex = vsched.Mutex
type RWMutex = vsched.RWMutex
type WaitGroup = vsched.WaitGroup
type Once = vsched.Once
type Locker interface {
	Lock()
	Unlock()
}
