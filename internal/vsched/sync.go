package vsched

// Mutex, RWMutex, WaitGroup and Once with scheduling points.

type Mutex struct{ locked bool }

func (m *Mutex) Lock() {
	t := s.cur
	t.op = &op{kind: opLock, mu: m}
	t.completed = false
	s.yieldFrom(t)
	t.op = nil
	m.locked = true
}

func (m *Mutex) TryLock() bool {
	Yield()
	if m.locked {
		return false
	}
	m.locked = true
	return true
}

func (m *Mutex) Unlock() {
	if !m.locked {
		panic("sync: unlock of unlocked mutex")
	}
	m.locked = false
	Yield()
}

type RWMutex struct {
	w bool
	r int
}

func (m *RWMutex) Lock() {
	t := s.cur
	t.op = &op{kind: opLock, rw: m}
	t.completed = false
	s.yieldFrom(t)
	t.op = nil
	m.w = true
}

func (m *RWMutex) Unlock() {
	m.w = false
	Yield()
}

func (m *RWMutex) RLock() {
	t := s.cur
	t.op = &op{kind: opRLock, rw: m}
	t.completed = false
	s.yieldFrom(t)
	t.op = nil
	m.r++
}

func (m *RWMutex) RUnlock() {
	m.r--
	Yield()
}

type WaitGroup struct{ n int }

func (w *WaitGroup) Add(d int) {
	w.n += d
	if w.n < 0 {
		panic("sync: negative WaitGroup counter")
	}
}

func (w *WaitGroup) Done() {
	w.Add(-1)
	Yield()
}

func (w *WaitGroup) Wait() {
	t := s.cur
	t.op = &op{kind: opWait, wg: w}
	t.completed = false
	s.yieldFrom(t)
	t.op = nil
}

type Once struct {
	m    Mutex
	done bool
}

func (o *Once) Do(f func()) {
	o.m.Lock()
	defer o.m.Unlock()
	if !o.done {
		o.done = true
		f()
	}
}
