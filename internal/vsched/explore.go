package vsched

// Explorer: stateless depth-first exploration of all executions whose total
// deviation cost (preemptions, early timer firings, non-first select cases)
// stays within a bound. Executions always run to completion.

type Stats struct {
	Executions int64
	Points     int64 // choice points met (sum over executions)
	MaxPoints  int   // longest execution
	Bound      int
	Capped     bool // the execution cap or the step horizon was hit
	Diverged   string
}

// Explore runs body under every schedule within the bound. visit is called
// after each execution; returning false stops the exploration.
func Explore(bound int, maxExec int64, stepCap int, body func(), visit func(x *Exec) bool) Stats {
	st := Stats{Bound: bound}
	stop := false
	var rec func(prefix []int, spent int)
	rec = func(prefix []int, spent int) {
		if stop {
			return
		}
		if maxExec > 0 && st.Executions >= maxExec {
			st.Capped = true
			stop = true
			return
		}
		x := Run(prefix, false, stepCap, body)
		st.Executions++
		st.Points += int64(len(x.Points))
		if len(x.Points) > st.MaxPoints {
			st.MaxPoints = len(x.Points)
		}
		if x.Diverged != "" {
			st.Diverged = x.Diverged
			stop = true
			return
		}
		if s.horizon {
			st.Capped = true
		}
		if !visit(x) {
			stop = true
			return
		}
		// cost already spent by the prefix part of this execution
		cost := 0
		for i := 0; i < len(x.Points); i++ {
			p := x.Points[i]
			if i >= len(prefix) {
				for alt := 1; alt < p.N; alt++ {
					if cost+p.Costs[alt] <= bound {
						np := make([]int, i+1)
						for k := 0; k < i; k++ {
							np[k] = x.Points[k].Chosen
						}
						np[i] = alt
						rec(np, cost+p.Costs[alt])
						if stop {
							return
						}
					}
				}
			}
			cost += p.Costs[p.Chosen]
		}
	}
	rec(nil, 0)
	return st
}

// Replay runs one recorded schedule with tracing on.
func Replay(choices []int, stepCap int, body func()) *Exec {
	return Run(choices, true, stepCap, body)
}
