package vsched

import "fmt"

// Chan is a virtual channel of T.
type Chan[T any] struct {
	core *chanCore
}

// MakeChan replaces make(chan T, n).
func MakeChan[T any](n int) *Chan[T] {
	s.chans++
	return &Chan[T]{core: &chanCore{id: s.chans, cap: n}}
}

func coreOf[T any](c *Chan[T]) *chanCore {
	if c == nil {
		return nil
	}
	return c.core
}

func conv[T any](v interface{}) T {
	if v == nil {
		var z T
		return z
	}
	return v.(T)
}

// Send replaces c <- v.
func (c *Chan[T]) Send(v T) {
	sc := s
	t := sc.cur
	o := &op{kind: opSend, ch: coreOf(c), val: v}
	t.op = o
	t.completed = false
	sc.yieldFrom(t)
	if !t.completed {
		sc.performSend(t, o.ch, v)
	}
	t.op = nil
	t.completed = false
}

// Recv2 replaces v, ok := <-c.
func (c *Chan[T]) Recv2() (T, bool) {
	sc := s
	t := sc.cur
	o := &op{kind: opRecv, ch: coreOf(c)}
	t.op = o
	t.completed = false
	sc.yieldFrom(t)
	if !t.completed {
		o.rval, o.rok = sc.performRecv(t, o.ch)
	}
	t.op = nil
	t.completed = false
	return conv[T](o.rval), o.rok
}

// Recv1 replaces <-c.
func (c *Chan[T]) Recv1() T {
	v, _ := c.Recv2()
	return v
}

// Close replaces close(c).
func (c *Chan[T]) Close() {
	sc := s
	t := sc.cur
	t.op = &op{kind: opClose, ch: coreOf(c)}
	t.completed = false
	sc.yieldFrom(t)
	t.op = nil
	closeCore(coreOf(c))
}

func closeCore(c *chanCore) {
	if c == nil {
		panic("close of nil channel")
	}
	if c.closed {
		panic("close of closed channel")
	}
	c.closed = true
}

// Len and Cap replace len(c) and cap(c).
func (c *Chan[T]) Len() int {
	if c == nil {
		return 0
	}
	return len(c.core.buf)
}

func (c *Chan[T]) Cap() int {
	if c == nil {
		return 0
	}
	return c.core.cap
}

// partners lists the threads with a pending receive (wantSend=false) or send on c.
type partner struct {
	t  *thread
	cs *selCase // nil: plain operation
	ci int
}

func (sc *Sched) partners(c *chanCore, except *thread, sending bool) []partner {
	var out []partner
	for _, t := range sc.threads {
		if t == except || t.finished || t.op == nil || t.completed {
			continue
		}
		switch t.op.kind {
		case opSend:
			if sending && t.op.ch == c {
				out = append(out, partner{t: t})
			}
		case opRecv:
			if !sending && t.op.ch == c {
				out = append(out, partner{t: t})
			}
		case opSelect:
			for i, cs := range t.op.cases {
				if cs.ch == c && cs.send == sending {
					out = append(out, partner{t: t, cs: cs, ci: i})
					break
				}
			}
		}
	}
	return out
}

func (sc *Sched) pickPartner(ps []partner) partner {
	if len(ps) == 1 {
		return ps[0]
	}
	i := sc.choose(PPartner, len(ps), make([]int, len(ps)), nil)
	return ps[i]
}

// performSend executes a send by the running thread t.
func (sc *Sched) performSend(t *thread, c *chanCore, v interface{}) {
	if c == nil {
		panic("vsched: send on nil channel scheduled")
	}
	if c.closed {
		panic("send on closed channel")
	}
	if ps := sc.partners(c, t, false); len(ps) > 0 && len(c.buf) == 0 {
		p := sc.pickPartner(ps)
		if p.cs != nil {
			p.cs.rval, p.cs.rok = v, true
			p.t.op.chosen = p.ci
		} else {
			p.t.op.rval, p.t.op.rok = v, true
		}
		p.t.completed = true
		sc.tracef("T%d sends on #%d to T%d", t.id, c.id, p.t.id)
		return
	}
	if len(c.buf) < c.cap {
		c.buf = append(c.buf, v)
		sc.tracef("T%d sends on #%d (buffered)", t.id, c.id)
		return
	}
	panic(fmt.Sprintf("vsched: send on #%d scheduled while not ready", c.id))
}

// performRecv executes a receive by the running thread t.
func (sc *Sched) performRecv(t *thread, c *chanCore) (interface{}, bool) {
	if c == nil {
		panic("vsched: receive on nil channel scheduled")
	}
	if len(c.buf) > 0 {
		v := c.buf[0]
		c.buf = c.buf[1:]
		// a sender blocked on the full buffer can now complete
		if ps := sc.partners(c, t, true); len(ps) > 0 {
			p := sc.pickPartner(ps)
			if p.cs != nil {
				c.buf = append(c.buf, p.cs.val)
				p.t.op.chosen = p.ci
			} else {
				c.buf = append(c.buf, p.t.op.val)
			}
			p.t.completed = true
		}
		sc.tracef("T%d receives on #%d (buffered)", t.id, c.id)
		return v, true
	}
	if ps := sc.partners(c, t, true); len(ps) > 0 {
		p := sc.pickPartner(ps)
		var v interface{}
		if p.cs != nil {
			v = p.cs.val
			p.t.op.chosen = p.ci
		} else {
			v = p.t.op.val
		}
		p.t.completed = true
		sc.tracef("T%d receives on #%d from T%d", t.id, c.id, p.t.id)
		return v, true
	}
	if c.closed {
		sc.tracef("T%d receives on closed #%d", t.id, c.id)
		return nil, false
	}
	panic(fmt.Sprintf("vsched: receive on #%d scheduled while not ready", c.id))
}

// ---- select -----------------------------------------------------------------------------------

// SelCase is one case of a select statement.
type SelCase interface{ selCase() *selCase }

// RecvOp is a receive case; after Select it holds the received value.
type RecvOp[T any] struct {
	cs *selCase
}

func (r *RecvOp[T]) selCase() *selCase { return r.cs }

// V and OK give the result of the chosen receive case.
func (r *RecvOp[T]) V() T     { return conv[T](r.cs.rval) }
func (r *RecvOp[T]) OK() bool { return r.cs.rok }

// SendOp is a send case.
type SendOp struct{ cs *selCase }

func (x *SendOp) selCase() *selCase { return x.cs }

// RecvCase / SendCase build the cases of a select.
func RecvCase[T any](c *Chan[T]) *RecvOp[T] {
	return &RecvOp[T]{cs: &selCase{ch: coreOf(c)}}
}

func SendCase[T any](c *Chan[T], v T) *SendOp {
	return &SendOp{cs: &selCase{send: true, ch: coreOf(c), val: v}}
}

// Select replaces a select statement: it returns the index of the chosen case,
// or -1 for the default clause.
func Select(hasDefault bool, cases ...SelCase) int {
	sc := s
	t := sc.cur
	o := &op{kind: opSelect, hasDefault: hasDefault, chosen: -2}
	for _, c := range cases {
		o.cases = append(o.cases, c.selCase())
	}
	t.op = o
	t.completed = false
	sc.yieldFrom(t)
	if !t.completed {
		var ready []int
		for i, cs := range o.cases {
			if cs.send && sc.sendReady(cs.ch, t) || !cs.send && sc.recvReady(cs.ch, t) {
				ready = append(ready, i)
			}
		}
		switch {
		case len(ready) == 0:
			if !hasDefault {
				panic("vsched: select scheduled while not ready")
			}
			o.chosen = -1
		default:
			k := 0
			if len(ready) > 1 {
				costs := make([]int, len(ready))
				for i := 1; i < len(costs); i++ {
					costs[i] = 1
				}
				k = sc.choose(PSelect, len(ready), costs, nil)
			}
			o.chosen = ready[k]
			cs := o.cases[o.chosen]
			if cs.send {
				sc.performSend(t, cs.ch, cs.val)
			} else {
				cs.rval, cs.rok = sc.performRecv(t, cs.ch)
			}
		}
	}
	t.op = nil
	t.completed = false
	return o.chosen
}

// CloseNow closes a channel without a scheduling point (used by timers and
// cancel functions, whose effect is atomic with the step that triggers them).
func CloseNow[T any](c *Chan[T]) {
	if c != nil && !c.core.closed {
		c.core.closed = true
	}
}
