// Package props holds one file per property (c01.go … c20.go); each registers
// a sup.Check in All.
package props

import "verif/internal/sup"

// All maps a property id to its check.
var All = map[string]*sup.Check{}

func register(c *sup.Check) { All[c.ID] = c }
