package props

import (
	"encoding/json"
	"fmt"

	"verif/internal/sup"
)

// Sibling derivations: one parent (0..8 blocks already appended in this
// process, used as built or after a reload) attenuated two or three times with
// structurally different blocks (empty, a check, another check, a fact reusing
// a parent symbol, a fact with two fresh symbols). The histories are ordinary
// C08 histories (longer than the BFS bound allows) and go through the same
// replay and the same invariants.
func c08SiblingHistories() [][]c08Op {
	type parent struct{ a, b int }
	var parents []parent
	for b := 0; b <= 8; b++ {
		parents = append(parents, parent{2, b})
	}
	parents = append(parents, parent{0, 3}, parent{3, 3})
	const items = 5 // 0..3 = c08Item, 4 = nothing added
	var lists [][]int
	for x := 0; x < items; x++ {
		for y := 0; y < items; y++ {
			lists = append(lists, []int{x, y})
			for z := 0; z < items; z++ {
				if x != y && y != z && x != z {
					lists = append(lists, []int{x, y, z})
				}
			}
		}
	}
	var out [][]c08Op
	for _, p := range parents {
		for reload := 0; reload < 2; reload++ {
			for _, l := range lists {
				h := []c08Op{{"new", p.a, p.b}}
				par := 0
				if reload == 1 {
					h = append(h, c08Op{"reload", 0, 0})
					par = 1
				}
				for k, it := range l {
					h = append(h, c08Op{"create", par, k})
					if it < 4 {
						h = append(h, c08Op{"add", k, it})
					}
					h = append(h, c08Op{"build", k, k}, c08Op{"append", par, k})
				}
				out = append(out, h)
			}
		}
	}
	return out
}

func c08SiblingSpace(replay func(raw json.RawMessage, w *sup.W)) *sup.Space {
	hs := c08SiblingHistories()
	return &sup.Space{Name: "sibling-derivations", Size: func(*sup.Ctx) int64 { return int64(len(hs)) }, Run: func(i int64, w *sup.W) {
		h := hs[i]
		w.SetCase(h)
		var f *c08Fail
		if r, stack := sup.Catch(func() { _, f = c08Replay(h, false) }); r != nil {
			w.Class("panic")
			w.Violate("C08:panic:"+sup.PanicSig(stack), histString(h), fmt.Sprint(r), "no panic")
			return
		}
		w.Stats().States++
		w.Stats().Transitions += int64(len(h))
		if f != nil {
			w.Class("violation")
			w.Violate(f.sig, histString(h), f.got, f.want)
			return
		}
		w.Class("family-intact")
		w.NontrivialByIndex()
		if w.WantSample("siblings") {
			w.Sample("siblings", map[string]string{"history": histString(h)})
		}
	}, ReplayCase: replay}
}
