//go:build vsched

package props

import (
	"encoding/json"
	"fmt"
	"os"
	"os/exec"
	"path/filepath"
	"regexp"
	"strings"

	biscuit "github.com/biscuit-auth/biscuit-go/v2"
	"github.com/biscuit-auth/biscuit-go/v2/datalog"
	"github.com/biscuit-auth/biscuit-go/v2/parser"
	"github.com/biscuit-auth/biscuit-go/v2/vsched"

	"verif/internal/c19ops"
	"verif/internal/foot"
	"verif/internal/sup"
)

// C19 — a token can be shared by concurrent goroutines. Three passes:
// footprint (decides "no data races": no operation writes memory another
// operation can access), schedules (decides "every goroutine obtains the result
// it would obtain alone" under every interleaving of the synchronisation
// operations and every order of the operations), and the auxiliary free-running
// race-detector pass.

type c19FootCase struct {
	Shape int    `json:"shape"`
	Op    string `json:"op"`
}

func c19Region(s *c19ops.Shared) foot.Region {
	roots := map[string]interface{}{"token": s.Tok, "parsedBlock": &s.PBlock, "parsedAuthorizer": &s.PAuth}
	for n, p := range biscuit.VerifGlobals() {
		roots["biscuit."+n] = p
	}
	for n, p := range datalog.VerifGlobals() {
		roots["datalog."+n] = p
	}
	for n, p := range parser.VerifGlobals() {
		roots["parser."+n] = p
	}
	return foot.Region{Roots: roots}
}

func c19Footprint() *sup.Space {
	nops := len(c19ops.Ops)
	return &sup.Space{Name: "footprint-on-shared-memory", Size: func(*sup.Ctx) int64 { return int64(len(c19ops.Shapes) * nops) }, Run: func(i int64, w *sup.W) {
		sh := c19ops.Shapes[int(i)/nops]
		op := c19ops.Ops[int(i)%nops]
		human := fmt.Sprintf("%s on %s", op.Name, sh)
		var shared *c19ops.Shared
		var err error
		x := seq(func() { shared, err = c19ops.MakeShared(sh) })
		if err != nil || len(x.Panics) > 0 {
			w.Violate("C19:setup-failed", human, fmt.Sprint(err, x.Panics), "a shared token")
			return
		}
		region := c19Region(shared)
		region.FillSpare()
		before := region.Snapshot()
		var res string
		x = seq(func() { res = op.Run(shared, 1) })
		if c11ExecProblems(w, x, human, "footprint") {
			return
		}
		after := region.Snapshot()
		w.Count("shared_memory_cells", int64(len(before)))
		if d := foot.Diff(before, after); len(d) > 0 {
			w.Class("shared-write")
			where := d[0]
			if k := strings.Index(where, ": "); k > 0 {
				where = where[:k]
			}
			where = regexp.MustCompile(`\[\d+\]`).ReplaceAllString(where, "[i]")
			w.Violate("C19:writes-shared-memory:"+op.Name+":"+where, human, strings.Join(d, "\n"), "the operation only reads memory reachable from the shared token, the shared parsed values and package-level variables")
			return
		}
		w.Class("read-only")
		w.NontrivialByIndex()
		if w.WantSample(op.Name) {
			w.Sample(op.Name, map[string]string{"case": human, "cells_compared": fmt.Sprint(len(before)), "result": shortStr(res)})
		}
	}}
}

func shortStr(s string) string {
	if len(s) > 160 {
		return s[:160] + "…"
	}
	return s
}

type c19SchedCase struct {
	Shape   int      `json:"shape"`
	Ops     []string `json:"ops"`
	Choices []int    `json:"schedule"`
}

func c19FindOp(name string) *c19ops.Op {
	for i := range c19ops.Ops {
		if c19ops.Ops[i].Name == name {
			return &c19ops.Ops[i]
		}
	}
	return nil
}

// c19Body: n goroutines on one shared token; results[i] is what goroutine i observed.
func c19Body(sh c19ops.Shape, ops []*c19ops.Op, results []string, setupErr *error) func() {
	return func() {
		shared, err := c19ops.MakeShared(sh)
		if err != nil {
			*setupErr = err
			return
		}
		done := vsched.MakeChan[int](len(ops))
		for i := range ops {
			i := i
			vsched.Go(func() {
				results[i] = ops[i].Run(shared, i+1)
				done.Send(i)
			})
		}
		for range ops {
			done.Recv1()
		}
	}
}

func c19Schedules() *sup.Space {
	name := "schedules"
	type tuple struct {
		shape int
		ops   []*c19ops.Op
	}
	build := func(c *sup.Ctx) []tuple {
		var ts []tuple
		shapes := []int{1, 2}
		if c.Thorough() {
			shapes = []int{0, 1, 2, 3, 4, 5, 6, 7}
		}
		for _, si := range shapes {
			for i := range c19ops.Ops {
				for j := i; j < len(c19ops.Ops); j++ {
					ts = append(ts, tuple{si, []*c19ops.Op{&c19ops.Ops[i], &c19ops.Ops[j]}})
				}
			}
		}
		// three goroutines: the operations that synchronise, plus the deriving ones
		var trip []*c19ops.Op
		for i := range c19ops.Ops {
			o := &c19ops.Ops[i]
			if o.Sync || o.Name == "Append" || o.Name == "Seal" || o.Name == "GetBlockID-unseen" {
				trip = append(trip, o)
			}
		}
		for _, si := range shapes[:1+sup.Pick(c, 0, 1)] {
			for a := range trip {
				for b := a; b < len(trip); b++ {
					for d := b; d < len(trip); d++ {
						nsync := 0
						for _, o := range []*c19ops.Op{trip[a], trip[b], trip[d]} {
							if o.Sync {
								nsync++
							}
						}
						// quick: at most one of the three evaluates Datalog (the other two are
						// atomic under the scheduler, so two preemptions place them anywhere)
						if c.Quick() && nsync > 1 {
							continue
						}
						ts = append(ts, tuple{si, []*c19ops.Op{trip[a], trip[b], trip[d]}})
					}
				}
			}
		}
		return ts
	}
	runTuple := func(w *sup.W, tp tuple, bound int, maxExec int64, only []int) {
		sh := c19ops.Shapes[tp.shape]
		var names []string
		for _, o := range tp.ops {
			names = append(names, o.Name)
		}
		w.SetCase(c19SchedCase{tp.shape, names, []int{}})
		// the process has served a stranger before (an authorizer with patterns and strings of its
		// own): what it left behind, if anything, must not matter to anyone
		seq(func() {
			if s, err := c19ops.MakeShared(sh); err == nil {
				for _, o := range c19ops.Ops {
					if o.Expect != "" {
						o.Run(s, 99)
					}
				}
			}
		})
		// what each goroutine obtains running alone
		alone := make([]string, len(tp.ops))
		for i, o := range tp.ops {
			i, o := i, o
			var err error
			x := seq(func() {
				var s *c19ops.Shared
				s, err = c19ops.MakeShared(sh)
				if err == nil {
					alone[i] = o.Run(s, i+1)
				}
			})
			if err == nil && o.Expect != "" && alone[i] != o.Expect {
				w.Class("result-differs")
				w.Violate("C19:result-alone-is-not-what-the-content-implies:"+o.Name, fmt.Sprintf("%s (as goroutine %d) on %s, alone, in a process that ran other authorizations before", o.Name, i+1, sh), shortStr(alone[i]), o.Expect)
				return
			}
			if err != nil || len(x.Panics) > 0 || len(x.Stranded) > 0 {
				w.Violate("C19:operation-fails-alone:"+o.Name, fmt.Sprintf("%s on %s", o.Name, sh), fmt.Sprint(err, x.Panics, x.Stranded), "a result")
				return
			}
		}
		results := make([]string, len(tp.ops))
		var setupErr error
		body := func() {
			for i := range results {
				results[i] = ""
			}
			c19Body(sh, tp.ops, results, &setupErr)()
		}
		judge := func(x *vsched.Exec) bool {
			cs := c19SchedCase{tp.shape, names, x.Choices()}
			w.SetCase(cs)
			human := fmt.Sprintf("goroutines %v sharing %s, schedule %v", names, sh, x.Choices())
			w.Stats().Transitions += int64(x.Steps)
			if only == nil && w.Ctx().Expired() {
				// the internal deadline ends the exploration of this tuple too (reported as not exhaustive)
				w.Stats().Exhaustive = false
				return false
			}
			if c11ExecProblems(w, x, human, "schedules") {
				return true
			}
			for i := range results {
				if results[i] != alone[i] {
					w.Class("result-differs")
					others := append(append([]string{}, names[:i]...), names[i+1:]...)
					w.Violate("C19:result-differs-from-running-alone:"+names[i]+":with:"+strings.Join(others, ","), human, fmt.Sprintf("goroutine %d (%s) obtained %s", i+1, names[i], shortStr(results[i])), shortStr(alone[i]))
					return true
				}
			}
			w.Class(fmt.Sprintf("%d-goroutines-agree", len(tp.ops)))
			return true
		}
		if only != nil {
			judge(vsched.Replay(only, 20000, body))
			return
		}
		b, _ := json.Marshal(c19SchedCase{tp.shape, names, nil})
		w.Mark(0, string(b))
		st := vsched.Explore(bound, maxExec, 20000, body, judge)
		w.Stats().States += st.Executions
		if st.Diverged != "" {
			w.Violate("HARNESS:replay-divergence", fmt.Sprint(names), st.Diverged, "deterministic replay")
		}
		if st.Capped {
			w.Stats().Exhaustive = false
		}
		w.Nontrivial(fmt.Sprint(tp.shape, names))
		if w.WantSample(fmt.Sprint(len(names))) || (st.Executions > 50 && w.WantSample("big")) {
			cls := fmt.Sprint(len(names))
			if st.Executions > 50 {
				cls = "big"
			}
			w.Sample(cls, map[string]interface{}{"goroutines": names, "shared": sh.String(), "preemption_bound": bound, "executions": st.Executions, "longest_execution_points": st.MaxPoints})
		}
	}
	return &sup.Space{Name: name, RunAll: func(c *sup.Ctx) {
		w := c.NewW(name)
		defer c.Merge(w)
		// pairs: 1 preemption (quick) places an atomic operation at every point of the other one;
		// triples always get 2
		bound := sup.Pick(c, 2, 3)
		for k, tp := range build(c) {
			if k%c.Shards != c.Shard {
				continue
			}
			if c.Expired() {
				w.Stats().Exhaustive = false
				return
			}
			b := bound
			if len(tp.ops) == 3 && b > 2 {
				b = 2
			}
			runTuple(w, tp, b, sup.Pick(c, int64(300000), int64(3000000)), nil)
		}
		w.Stats().Bound = fmt.Sprintf("all interleavings of the library's synchronisation operations and all orders of the operations with at most %d deviations", bound)
		w.Stats().MaxDepth = int64(bound)
	}, ReplayCase: func(raw json.RawMessage, w *sup.W) {
		var cs c19SchedCase
		if json.Unmarshal(raw, &cs) != nil || cs.Choices == nil {
			return
		}
		tp := tuple{shape: cs.Shape}
		for _, n := range cs.Ops {
			o := c19FindOp(n)
			if o == nil {
				return
			}
			tp.ops = append(tp.ops, o)
		}
		runTuple(w, tp, 0, 0, cs.Choices)
	}}
}

// ---- auxiliary pass: the race detector on free-running goroutines -------------------------------

type c19RaceCase struct {
	Test string `json:"test"`
}

var raceFrame = regexp.MustCompile(`biscuit-go/v2[^\s(]*\.([A-Za-z0-9_().*]+)\(\)`)

func c19RunRace(w *sup.W, run string) {
	bin := filepath.Join(sup.Root, "bin", "racepass.test")
	if _, err := os.Stat(bin); err != nil {
		w.Violate("HARNESS:race-pass-binary-missing", bin, err.Error(), "built by scripts/run.sh")
		return
	}
	args := []string{"-test.v"}
	if run != "" {
		parts := strings.SplitN(run, "/", 2)
		pat := "^TestPairs$/^" + regexp.QuoteMeta(parts[0]) + "$"
		if len(parts) > 1 {
			pat += "/^" + regexp.QuoteMeta(parts[1]) + "$"
		}
		args = append(args, "-test.run", pat)
	}
	// test2json attributes every output line (incl. race reports) to the subtest that produced it
	full := append([]string{"tool", "test2json", "-t", bin, "-test.v=test2json"}, args[1:]...)
	cmd := exec.Command("go", full...)
	cmd.Env = append(os.Environ(), "GORACE=halt_on_error=0")
	out, _ := cmd.CombinedOutput()
	perTest := map[string]*strings.Builder{}
	var order []string
	for _, line := range strings.Split(string(out), "\n") {
		var ev struct {
			Action, Test, Output string
		}
		if json.Unmarshal([]byte(line), &ev) != nil || ev.Test == "" || !strings.HasPrefix(ev.Test, "TestPairs/shape") || strings.Count(ev.Test, "/") < 2 {
			continue
		}
		name := strings.TrimPrefix(ev.Test, "TestPairs/")
		sb := perTest[name]
		if sb == nil {
			sb = &strings.Builder{}
			perTest[name] = sb
			order = append(order, name)
		}
		if ev.Action == "output" {
			sb.WriteString(ev.Output)
		}
	}
	text := string(out)
	n := 0
	for _, name := range order {
		seg := perTest[name].String()
		n++
		w.SetCase(c19RaceCase{name})
		switch {
		case strings.Contains(seg, "WARNING: DATA RACE"):
			w.Class("race")
			site := "unknown"
			if fm := raceFrame.FindStringSubmatch(seg); fm != nil {
				site = fm[1]
			}
			pair := name
			if i := strings.Index(name, "/"); i >= 0 {
				pair = name[i+1:]
			}
			w.ViolateSound("C19:data-race:"+site+":"+pair, "free-running goroutines "+name, shortStr(seg[strings.Index(seg, "WARNING: DATA RACE"):]), "no report from the race detector")
		case strings.Contains(seg, "RESULT-DIFFERS"):
			w.Class("result-differs")
			w.ViolateSound("C19:free-running-result-differs:"+name, name, shortStr(seg), "the result obtained alone")
		case strings.Contains(seg, "--- FAIL"):
			w.Class("failed")
			w.ViolateSound("C19:race-pass-subtest-failed:"+name, name, shortStr(seg), "pass")
		default:
			w.Class("silent")
		}
	}
	if n == 0 {
		w.Violate("HARNESS:race-pass-produced-no-subtests", run, shortStr(text), "subtests")
	}
	w.Count("race_pass_subtests", int64(n))
}

func c19RacePass() *sup.Space {
	name := "race-detector-pass"
	return &sup.Space{Name: name, RunAll: func(c *sup.Ctx) {
		// one shared-token shape per child process
		if c.Shard >= len(c19ops.Shapes) {
			return
		}
		w := c.NewW(name)
		defer c.Merge(w)
		for k := c.Shard; k < len(c19ops.Shapes); k += c.Shards {
			c19RunRace(w, fmt.Sprintf("shape%d", k))
		}
		w.Nontrivial("race-pass")
		w.Nontrivial("race-pass-2")
		w.Stats().States = w.Stats().Evaluations
		w.Stats().Transitions = w.Stats().Evaluations
	}, ReplayCase: func(raw json.RawMessage, w *sup.W) {
		var cs c19RaceCase
		if json.Unmarshal(raw, &cs) != nil {
			return
		}
		c19RunRace(w, cs.Test)
	}}
}

func init() {
	register(&sup.Check{
		ID:           "C19",
		Level:        "model_checking",
		Technique:    "exhaustive per-operation footprint check on shared memory (independence => all interleavings equivalent), stateless preemption-bounded exploration of schedules of 2-3 goroutines on the rewritten real library, and an auxiliary free-running race-detector pass",
		Rule:         "footprint: 16 operations x 8 shared-token shapes (0-6 fresh symbols, 0-3 blocks, built/reloaded, sealed, key id); the region is everything reachable from the shared token, the shared parsed block/authorizer and every package-level variable of the module (slices up to their capacity, spare capacity pre-filled with a sentinel); a changed cell is a write to shared memory, i.e. a race with any concurrent user. schedules: every unordered pair of operations (incl. an operation with itself) and every triple of the synchronising/deriving operations as goroutines on one shared token, every interleaving of the library's synchronisation operations and every order of the operations within 2 (quick) / 3 (thorough) deviations (a deviation: preempting a runnable goroutine, or resuming another than the lowest-numbered runnable goroutine when the running one blocks); each goroutine's result must equal its result alone. race pass: the same bodies in real goroutines under `go test -race` on the unmodified library, every pair x every shape. states = executions, transitions = scheduling steps. Non-trivial = operation/shape (footprint), tuple (schedules).",
		Assume:       []string{"an operation that does not write the shared region cannot race with any other operation of the alphabet; protobuf-go's per-message state/sizeCache (written with atomics by proto.Marshal) and participle/regexp internals are outside the region and covered by the race pass only", "the scheduler is sequentially consistent with scheduling points at the library's synchronisation operations; operations without such points execute atomically, in every order", "the race detector is a sound but incomplete witness; its pass is auxiliary"},
		Procs:        func(string) int { return 16 },
		SingleThread: true,
		Overlay:      true,
		Spaces: func(c *sup.Ctx) []*sup.Space {
			// C19 is not about timeouts: timers never fire under a running program
			vsched.FireTimersOnlyWhenIdle = true
			vsched.CountSwitchChoiceAtBlock = true
			return []*sup.Space{c19Footprint(), c19Schedules(), c19RacePass()}
		},
	})
}
