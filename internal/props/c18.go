package props

import (
	"bytes"
	"fmt"
	"strings"
	"time"

	biscuit "github.com/biscuit-auth/biscuit-go/v2"
	"github.com/biscuit-auth/biscuit-go/v2/datalog"

	"verif/internal/hx"
	"verif/internal/refdl"
	rx "verif/internal/refexpr"
	"verif/internal/sup"
	"verif/internal/wire"
)

// C18 — an authorizer snapshot restores an equivalent authorizer.

type c18Item struct {
	f *refdl.Atom
	r *refdl.Rule
	c *refdl.Check
	p *refdl.Policy
}

var c18Items = func() []c18Item {
	var out []c18Item
	f := func(a refdl.Atom) { out = append(out, c18Item{f: &a}) }
	r := func(x refdl.Rule) { out = append(out, c18Item{r: &x}) }
	c := func(x refdl.Check) { out = append(out, c18Item{c: &x}) }
	p := func(x refdl.Policy) { out = append(out, c18Item{p: &x}) }
	for _, v := range []rx.Val{rx.Int(5), rx.Str("fresh-a"), rx.Str("read"), rx.Date(1700000000), rx.Bytes([]byte{1, 2}), rx.Bool(true), rx.SetOf(rx.Int(1), rx.Int(2)), rx.SetOf(rx.Str("x"), rx.Str("write")), rx.SetOf(rx.Bytes([]byte{9}))} {
		f(atom("n", v))
	}
	f(fOpRead)
	f(fOpWrite)
	f(fResF)
	f(fRightR)
	// a set the caller wrote with a repeated element: whatever the original authorizer makes of it, the restored one must too
	f(atom("n", rx.SetOf(rx.Int(7), rx.Int(7), rx.Int(9))))
	p(deny(qe([]refdl.Atom{atom("n", vx)}, []rx.Op{{Kind: rx.OpValue, V: vx}, {Kind: rx.OpUnary, U: rx.Length}, {Kind: rx.OpValue, V: rx.Int(2)}, {Kind: rx.OpBinary, B: rx.GreaterThan}})))
	r(rAllowed)
	r(refdl.Rule{Head: atom("big", vx), Body: []refdl.Atom{atom("n", vx)}, Exprs: [][]rx.Op{binExpr(vx, rx.GreaterThan, rx.Int(1))}})
	r(refdl.Rule{Head: atom("named", vx), Body: []refdl.Atom{atom("n", vx)}, Exprs: [][]rx.Op{binExpr(vx, rx.Prefix, rx.Str("fresh"))}})
	c(chk(q(fOpRead)))
	c(chk(q(fAllowedF), q(fRightR)))
	c(chk(qe([]refdl.Atom{atom("n", vx)}, binExpr(vx, rx.Equal, rx.SetOf(rx.Int(2), rx.Int(1))))))
	p(allow(qTrue))
	p(deny(qTrue))
	p(allow(q(fRightR)))
	p(deny(q(fOpWrite)))
	p(allow(q(atom("big", vx)), q(fAllowedF)))
	p(deny(q(atom("named", vx))))
	return out
}()

func c18Subsets(max int) [][]int {
	n := len(c18Items)
	out := [][]int{{}}
	for i := 0; i < n; i++ {
		out = append(out, []int{i})
	}
	for i := 0; i < n; i++ {
		for j := i + 1; j < n; j++ {
			out = append(out, []int{i, j})
		}
	}
	if max >= 3 {
		for i := 0; i < n; i++ {
			for j := i + 1; j < n; j++ {
				for k := j + 1; k < n; k++ {
					out = append(out, []int{i, j, k})
				}
			}
		}
	}
	return out
}

func c18Content(sub []int, rev bool) (refdl.Block, []refdl.Policy) {
	var b refdl.Block
	var pol []refdl.Policy
	for _, i := range sub {
		it := c18Items[i]
		switch {
		case it.f != nil:
			b.Facts = append(b.Facts, *it.f)
		case it.r != nil:
			b.Rules = append(b.Rules, *it.r)
		case it.c != nil:
			b.Checks = append(b.Checks, *it.c)
		case it.p != nil:
			pol = append(pol, *it.p)
		}
	}
	if rev {
		for i, j := 0, len(pol)-1; i < j; i, j = i+1, j-1 {
			pol[i], pol[j] = pol[j], pol[i]
		}
	}
	return b, pol
}

var c18Tokens = []c13Tok{
	{authority: refdl.Block{Facts: []refdl.Atom{fRightR, atom("n", rx.Str("fresh-a"))}}}, // symbols overlapping the authorizer's
	{authority: refdl.Block{Facts: []refdl.Atom{atom("unrelated", rx.Str("zzz"))}}},      // disjoint
	{authority: refdl.Block{Facts: []refdl.Atom{fOpRead}}},                               // default symbols only
	{authority: refdl.Block{Facts: []refdl.Atom{fResF}, Rules: []refdl.Rule{rAllowed}}, blocks: []refdl.Block{{Facts: []refdl.Atom{atom("n", rx.Int(7))}, Checks: []refdl.Check{chk(q(fOpRead))}}}}, // with a block
	{authority: refdl.Block{Checks: []refdl.Check{chk(q(atom("n", vx)))}}, blocks: []refdl.Block{{Checks: []refdl.Check{chk(q(atom("big", vx)))}}}},
	{},
}

var c18Panel = []refdl.Rule{
	rule(atom("out", vx), atom("n", vx)),
	rule(atom("out", vx), atom("big", vx)),
	rule(atom("out", vx), atom("named", vx)),
	rule(atom("out", vx), atom("allowed", vx)),
	rule(atom("out", vx, vy), atom("right", vx, vy)),
	rule(atom("out", vx), atom("operation", vx)),
}

func c18Observe(a biscuit.Authorizer) string {
	var o []string
	err := a.Authorize()
	o = append(o, hx.Classify(err)+fmt.Sprint(hx.FailedChecks(err)))
	for _, qr := range c18Panel {
		ks, err := hx.QuerySet(a, qr)
		if err != nil {
			o = append(o, "error")
		} else {
			o = append(o, hx.JoinKeys(ks))
		}
	}
	return strings.Join(o, " ")
}

// c18Snapshot returns the bytes of a snapshot of the given content (taken on a token).
func c18Snapshot(tok *biscuit.Biscuit, blk refdl.Block, pol []refdl.Policy) ([]byte, error) {
	a, err := biscuit.NewVerifier(tok, hx.LongLimits)
	if err != nil {
		return nil, err
	}
	hx.Load(a, blk, pol)
	return a.SerializePolicies()
}

func init() {
	register(&sup.Check{
		ID:        "C18",
		Level:     "exploration",
		Technique: "bounded-exhaustive differential enumeration (authorizer content x token the snapshot is taken on x token it is restored for) on the real code, plus exhaustive byte-level and structural neighbourhoods of snapshots for the no-panic clause",
		Rule:      "contents: every subset of <= 3 (quick: <= 2, plus all 3-subsets that contain a policy pair) of 25 items (facts of every term type incl. sets of byte arrays, default and fresh strings, rules with expressions, checks with 1-2 queries, allow/deny policies) with the policies in both orders; snapshot taken on each of 6 tokens (overlapping, disjoint, default-only symbols, with blocks, empty) and restored into a fresh authorizer for each of the 6 tokens. Oracle: the restored authorizer and an authorizer given the content directly authorize to the same class with the same failed checks and answer a 6-rule Query panel with the same sets; SerializePolicies after Authorize or Query returns an error. Malformed: every proper prefix, single-byte deletion and single-bit flip of 40 snapshots, and every single structural deviation (version, symbol indexes out of range, empty set, empty term/op, unknown operator code, missing policy kind, unknown kind): LoadPolicies returns without panic and a following Authorize and Query panel return without panic. Non-trivial = non-empty content; distinct by construction.",
		Assume:    []string{"differential oracle between a directly configured and a restored authorizer of the implementation"},
		Spaces: func(c *sup.Ctx) []*sup.Space {
			subs := c18Subsets(3)
			if c.Quick() {
				var keep [][]int
				for _, s := range subs {
					np := 0
					for _, i := range s {
						if c18Items[i].p != nil {
							np++
						}
					}
					if len(s) <= 2 || np >= 2 {
						keep = append(keep, s)
					}
				}
				subs = keep
			}
			nt := int64(len(c18Tokens))
			equiv := &sup.Space{Name: "restore-equivalence", Size: func(*sup.Ctx) int64 { return int64(len(subs)) * 2 * nt * nt * 3 * 3 }, Run: func(i int64, w *sup.W) {
				// content given to both authorizers AFTER the snapshot was loaded: nothing / a check / a fact, a rule and a policy
				late := int(i % 3)
				i /= 3
				addLate := func(a biscuit.Authorizer) {
					switch late {
					case 1:
						hx.Load(a, refdl.Block{Checks: []refdl.Check{chk(q(atom("late", rx.Str("never"))))}}, nil)
					case 2:
						hx.Load(a, refdl.Block{Facts: []refdl.Atom{atom("late", rx.Str("fresh-late"))}, Rules: []refdl.Rule{rule(atom("n", vx), atom("late", vx))}}, []refdl.Policy{deny(q(atom("late", vx)))})
					}
				}
				// run limits given when the authorizers are created: none binding / 3 facts / 1 iteration
				lim := []biscuit.AuthorizerOption{hx.LongLimits,
					biscuit.WithWorldOptions(datalog.WithMaxDuration(time.Hour), datalog.WithMaxFacts(3)),
					biscuit.WithWorldOptions(datalog.WithMaxDuration(time.Hour), datalog.WithMaxIterations(1))}[i%3]
				limName := []string{"default limits", "WithMaxFacts(3)", "WithMaxIterations(1)"}[i%3]
				i /= 3
				t2 := c18Tokens[i%nt]
				i /= nt
				t1 := c18Tokens[i%nt]
				i /= nt
				rev := i%2 == 1
				sub := subs[i/2]
				blk, pol := c18Content(sub, rev)
				tokA, err := cachedToken(w, t1.authority, t1.blocks)
				if err != nil {
					w.Violate("C18:token-build-failed", t1.authority.String(), err.Error(), "a token")
					return
				}
				tokB, err := cachedToken(w, t2.authority, t2.blocks)
				if err != nil {
					w.Violate("C18:token-build-failed", t2.authority.String(), err.Error(), "a token")
					return
				}
				human := fmt.Sprintf("content %s policies %v; snapshot taken on token(%s %v), restored for token(%s %v); authorizers created with %s; added after the load: %s", blk, pol, t1.authority, t1.blocks, t2.authority, t2.blocks, limName, []string{"nothing", "check if late(\"never\")", "late(\"fresh-late\"), n($x) <- late($x), deny if late($x)"}[late])
				saved, _ := biscuit.NewVerifier(tokA, lim)
				hx.Load(saved, blk, pol)
				snap, err := saved.SerializePolicies()
				if err != nil {
					w.Class("snapshot-refused")
					w.Violate("C18:snapshot-of-unevaluated-authorizer-refused", human, err.Error(), "bytes")
					return
				}
				// saving is an observation: a second save gives the same bytes and the saved
				// authorizer goes on to behave like one that was never saved
				if snap2, err := saved.SerializePolicies(); err != nil || !bytes.Equal(snap, snap2) {
					w.Class("second-snapshot-differs")
					w.Violate("C18:second-snapshot-differs", human, fmt.Sprintf("%x (%v)", snap2, err), fmt.Sprintf("%x", snap))
					return
				}
				unsaved, _ := biscuit.NewVerifier(tokA, lim)
				hx.Load(unsaved, blk, pol)
				if os, ou := c18Observe(saved), c18Observe(unsaved); os != ou {
					w.Class("saving-changes-the-authorizer")
					w.Violate("C18:saving-changes-the-authorizer", human, "after SerializePolicies: "+os, "never saved: "+ou)
					return
				}
				direct, _ := biscuit.NewVerifier(tokB, lim)
				hx.Load(direct, blk, pol)
				restored, _ := biscuit.NewVerifier(tokB, lim)
				if err := restored.LoadPolicies(snap); err != nil {
					w.Class("load-failed")
					w.Violate("C18:load-of-own-snapshot-failed", human, err.Error(), "nil")
					return
				}
				addLate(direct)
				addLate(restored)
				od, or := c18Observe(direct), c18Observe(restored)
				if od != or {
					w.Class("restored-differs")
					w.Violate("C18:restored-authorizer-differs", human, "restored: "+or, "original content: "+od)
					return
				}
				// saving is refused once evaluated
				if _, err := direct.SerializePolicies(); err == nil {
					w.Class("snapshot-after-evaluation")
					w.Violate("C18:snapshot-allowed-after-authorize", human, "bytes", "an error")
					return
				}
				qa, _ := biscuit.NewVerifier(tokB, lim)
				hx.Load(qa, blk, pol)
				hx.QuerySet(qa, c18Panel[0])
				if _, err := qa.SerializePolicies(); err == nil {
					w.Class("snapshot-after-evaluation")
					w.Violate("C18:snapshot-allowed-after-query", human, "bytes", "an error")
					return
				}
				cls := strings.SplitN(od, "[", 2)[0]
				w.Class(cls)
				if len(sub) > 0 {
					w.NontrivialByIndex()
				}
				if w.WantSample(cls) {
					w.Sample(cls, map[string]string{"case": human, "observation": od})
				}
			}}
			// snapshots used for the malformed-input clause
			var seeds [][]int
			for k, s := range c18Subsets(3) {
				if len(s) == 3 && k%45 == 0 {
					seeds = append(seeds, s)
				}
			}
			type job struct {
				seed, kind, pos int
			}
			malformedRun := func(w *sup.W, human string, data []byte) {
				tk := c18Tokens[3]
				tok, err := cachedToken(w, tk.authority, tk.blocks)
				if err != nil {
					return
				}
				a, _ := biscuit.NewVerifier(tok, hx.LongLimits)
				var lerr error
				if r, stack := sup.Catch(func() { lerr = a.LoadPolicies(data) }); r != nil {
					w.Class("panic")
					w.Violate("C18:panic-in-LoadPolicies:"+sup.PanicSig(stack), human, fmt.Sprint(r), "nil or an error")
					return
				}
				if r, stack := sup.Catch(func() {
					a.Authorize()
					for _, qr := range c18Panel[:2] {
						a.Query(hx.Rule(qr))
					}
					a.PrintWorld()
				}); r != nil {
					w.Class("panic")
					w.Violate("C18:panic-after-LoadPolicies:"+sup.PanicSig(stack), human, fmt.Sprintf("LoadPolicies returned %v, then: %v", lerr, r), "no panic")
					return
				}
				if lerr != nil {
					w.Class("load-error")
				} else {
					w.Class("loaded")
				}
				w.NontrivialByIndex()
			}
			// structural deviations need a snapshot with a fact, a rule, a check and a policy
			nByteSeeds := len(seeds)
			seeds = append(seeds, []int{0, 13, 16, 19}, []int{1, 14, 17, 21}, []int{6, 15, 18, 23}, []int{8, 13, 17, 24}, []int{2, 9, 14, 16, 22})
			snapOf := func(w *sup.W, k int) []byte {
				blk, pol := c18Content(seeds[k], false)
				tok, err := cachedToken(w, c18Tokens[0].authority, c18Tokens[0].blocks)
				if err != nil {
					return nil
				}
				b, _ := c18Snapshot(tok, blk, pol)
				return b
			}
			// byte-level space: index -> (seed, kind, pos) with a fixed upper bound of 600 bytes per snapshot
			const maxLen = 600
			bytesSpace := &sup.Space{Name: "malformed-bytes", Size: func(*sup.Ctx) int64 { return int64(nByteSeeds) * maxLen * 10 }, Run: func(i int64, w *sup.W) {
				kind := int(i % 10) // 0..7 bit flips, 8 prefix, 9 byte deletion
				i /= 10
				pos := int(i % maxLen)
				k := int(i / maxLen)
				snap := snapOf(w, k)
				if snap == nil || pos >= len(snap) {
					return
				}
				var data []byte
				var what string
				switch {
				case kind < 8:
					data = append([]byte{}, snap...)
					data[pos] ^= 1 << uint(kind)
					what = "bit-flip"
				case kind == 8:
					data = append([]byte{}, snap[:pos]...)
					what = "prefix"
				default:
					data = append(append([]byte{}, snap[:pos]...), snap[pos+1:]...)
					what = "byte-deletion"
				}
				malformedRun(w, fmt.Sprintf("snapshot %d (%d bytes): %s at %d", k, len(snap), what, pos), data)
			}}
			structural := &sup.Space{Name: "malformed-structure", Size: func(*sup.Ctx) int64 { return int64(len(seeds)-nByteSeeds) * int64(len(c18Deviations)) }, Run: func(i int64, w *sup.W) {
				dev := c18Deviations[i%int64(len(c18Deviations))]
				k := nByteSeeds + int(i/int64(len(c18Deviations)))
				snap := snapOf(w, k)
				if snap == nil {
					return
				}
				p, err := wire.DecodePolicies(snap)
				if err != nil {
					w.Violate("C18:reference-decoder-rejects-snapshot", fmt.Sprint(k), err.Error(), "decodable")
					return
				}
				if !dev.apply(p) {
					w.Class("not-applicable")
					return
				}
				malformedRun(w, fmt.Sprintf("snapshot %d with %s", k, dev.name), p.Encode())
			}}
			return []*sup.Space{equiv, bytesSpace, structural}
		},
	})
}

type c18Deviation struct {
	name  string
	apply func(p *wire.Policies) bool
}

func firstTerm(p *wire.Policies) *wire.Term {
	for i := range p.Facts {
		if len(p.Facts[i].Terms) > 0 {
			return &p.Facts[i].Terms[0]
		}
	}
	return nil
}

var c18Deviations = func() []c18Deviation {
	var out []c18Deviation
	for _, v := range []*uint32{nil, u32(0), u32(2), u32(4), u32(4294967295)} {
		v := v
		out = append(out, c18Deviation{"version=" + idStr(v), func(p *wire.Policies) bool { p.Version = v; return true }})
	}
	for _, idx := range []uint64{27, 28, 1023, 1024 + 50, 1 << 31, 1 << 32, 1 << 63, 1<<64 - 1} {
		idx := idx
		out = append(out,
			c18Deviation{fmt.Sprintf("fact name index %d", idx), func(p *wire.Policies) bool {
				if len(p.Facts) == 0 {
					return false
				}
				p.Facts[0].Name = idx
				return true
			}},
			c18Deviation{fmt.Sprintf("string term index %d", idx), func(p *wire.Policies) bool {
				t := firstTerm(p)
				if t == nil {
					return false
				}
				*t = wire.Term{Kind: wire.TString, U: idx}
				return true
			}},
			c18Deviation{fmt.Sprintf("variable index %d in a rule head", idx), func(p *wire.Policies) bool {
				if len(p.Rules) == 0 {
					return false
				}
				p.Rules[0].Head.Terms = []wire.Term{{Kind: wire.TVariable, U: idx}}
				return true
			}},
			c18Deviation{fmt.Sprintf("check query predicate index %d", idx), func(p *wire.Policies) bool {
				if len(p.Checks) == 0 || len(p.Checks[0].Queries) == 0 || len(p.Checks[0].Queries[0].Body) == 0 {
					return false
				}
				p.Checks[0].Queries[0].Body[0].Name = idx
				return true
			}},
			c18Deviation{fmt.Sprintf("policy query string index %d", idx), func(p *wire.Policies) bool {
				if len(p.Policies) == 0 || len(p.Policies[0].Queries) == 0 {
					return false
				}
				q := &p.Policies[0].Queries[0]
				q.Body = append(q.Body, wire.Pred{HasName: true, Name: idx, Terms: []wire.Term{{Kind: wire.TString, U: idx}}})
				return true
			}},
		)
	}
	termDevs := map[string]wire.Term{
		"empty set":              {Kind: wire.TSet},
		"term without content":   {Kind: wire.TEmpty},
		"nested set":             {Kind: wire.TSet, Set: []wire.Term{{Kind: wire.TSet, Set: []wire.Term{{Kind: wire.TInteger, I: 1}}}}},
		"set with a variable":    {Kind: wire.TSet, Set: []wire.Term{{Kind: wire.TVariable, U: 1024}}},
		"mixed set":              {Kind: wire.TSet, Set: []wire.Term{{Kind: wire.TInteger, I: 1}, {Kind: wire.TBool, Bo: true}}},
		"set with an empty term": {Kind: wire.TSet, Set: []wire.Term{{Kind: wire.TEmpty}}},
		"variable in a fact":     {Kind: wire.TVariable, U: 1024},
	}
	for _, name := range []string{"empty set", "term without content", "nested set", "set with a variable", "mixed set", "set with an empty term", "variable in a fact"} {
		t := termDevs[name]
		name := name
		out = append(out, c18Deviation{"fact term: " + name, func(p *wire.Policies) bool {
			ft := firstTerm(p)
			if ft == nil {
				return false
			}
			*ft = t
			return true
		}})
	}
	for _, ops := range [][]wire.Op{
		{},
		{{Kind: wire.OEmpty}},
		{{Kind: wire.OUnary, HasCode: true, Code: 3}},
		{{Kind: wire.OBinary, HasCode: true, Code: 17}},
		{{Kind: wire.OBinary, HasCode: true, Code: 1 << 31}},
		{{Kind: wire.OUnary}},
		{{Kind: wire.OBinary}},
		{{Kind: wire.OValue, Term: wire.Term{Kind: wire.TEmpty}}},
		{{Kind: wire.OBinary, HasCode: true, Code: 4}},
		{{Kind: wire.OValue, Term: wire.Term{Kind: wire.TInteger, I: 1}}, {Kind: wire.OValue, Term: wire.Term{Kind: wire.TInteger, I: 1}}},
	} {
		ops := ops
		out = append(out, c18Deviation{fmt.Sprintf("policy expression ops %v", ops), func(p *wire.Policies) bool {
			if len(p.Policies) == 0 || len(p.Policies[0].Queries) == 0 {
				return false
			}
			p.Policies[0].Queries[0].Exprs = append(p.Policies[0].Queries[0].Exprs, ops)
			return true
		}}, c18Deviation{fmt.Sprintf("rule expression ops %v", ops), func(p *wire.Policies) bool {
			if len(p.Rules) == 0 {
				return false
			}
			p.Rules[0].Exprs = append(p.Rules[0].Exprs, ops)
			return true
		}})
	}
	out = append(out,
		c18Deviation{"policy without kind", func(p *wire.Policies) bool {
			if len(p.Policies) == 0 {
				return false
			}
			p.Policies[0].HasKind = false
			return true
		}},
		c18Deviation{"policy kind 2", func(p *wire.Policies) bool {
			if len(p.Policies) == 0 {
				return false
			}
			p.Policies[0].Kind = 2
			return true
		}},
		c18Deviation{"rule without head", func(p *wire.Policies) bool {
			if len(p.Rules) == 0 {
				return false
			}
			p.Rules[0].HasHead = false
			return true
		}},
		c18Deviation{"predicate without name", func(p *wire.Policies) bool {
			if len(p.Facts) == 0 {
				return false
			}
			p.Facts[0].HasName = false
			return true
		}},
		c18Deviation{"policy without queries", func(p *wire.Policies) bool {
			if len(p.Policies) == 0 {
				return false
			}
			p.Policies[0].Queries = nil
			return true
		}},
		c18Deviation{"check without queries", func(p *wire.Policies) bool {
			p.Checks = append(p.Checks, wire.Check{})
			return true
		}},
		c18Deviation{"duplicate and default-named symbols", func(p *wire.Policies) bool {
			p.Symbols = append(p.Symbols, "read", "read", "")
			return true
		}},
		c18Deviation{"head variable missing from body", func(p *wire.Policies) bool {
			p.Rules = append(p.Rules, wire.Rule{HasHead: true, Head: wire.Pred{HasName: true, Name: 0, Terms: []wire.Term{{Kind: wire.TVariable, U: 5}}}, Body: []wire.Pred{{HasName: true, Name: 3, Terms: []wire.Term{{Kind: wire.TVariable, U: 6}}}}})
			p.Facts = append(p.Facts, wire.Pred{HasName: true, Name: 3, Terms: []wire.Term{{Kind: wire.TInteger, I: 1}}}, wire.Pred{HasName: true, Name: 3, Terms: []wire.Term{{Kind: wire.TInteger, I: 2}}})
			return true
		}},
	)
	return out
}()
