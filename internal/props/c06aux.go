package props

import (
	"fmt"
	"sort"
	"strings"

	"github.com/biscuit-auth/biscuit-go/v2/datalog"

	rx "verif/internal/refexpr"
)

// c06Operands renders the literal operands of an expression and the variable
// bindings exactly as stored (element order of sets included).
func c06Operands(expr datalog.Expression, values map[datalog.Variable]*datalog.Term) string {
	var parts []string
	for _, op := range expr {
		if v, ok := op.(datalog.Value); ok {
			parts = append(parts, fmt.Sprintf("%#v", v.ID))
		}
	}
	var keys []int
	for k := range values {
		keys = append(keys, int(k))
	}
	sort.Ints(keys)
	for _, k := range keys {
		parts = append(parts, fmt.Sprintf("$%d=%#v", k, *values[datalog.Variable(k)]))
	}
	return strings.Join(parts, " ; ")
}

// opsShape replaces operand values by their kinds (for signatures).
func opsShape(ops []rx.Op) []rx.Op {
	out := make([]rx.Op, len(ops))
	for i, o := range ops {
		out[i] = o
		if o.Kind == rx.OpValue {
			out[i].V = rx.Var(o.V.K.String())
		}
	}
	return out
}
