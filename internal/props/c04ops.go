package props

import (
	"fmt"
	"strings"

	biscuit "github.com/biscuit-auth/biscuit-go/v2"

	"verif/internal/hx"
	"verif/internal/refdl"
	rx "verif/internal/refexpr"
	"verif/internal/sup"
)

// C04-S7: a check means the same wherever it lives. Every binary operator on
// every pair of a per-type boundary grid (equal operands, neighbours, dates
// beyond the year 2262, non-ASCII strings, sets), as `check if v($x), $x OP k`
// and as the body-less `check if a OP b`, placed in the authorizer, in the
// authority block, in an appended block, and in an authorizer restored from a
// snapshot. A token-carried check is translated between symbol tables and
// between the datalog and builder representations before it is evaluated; the
// verdict must be the reference's in every placement.
var c04OpGrid = func() [][]rx.Val {
	return [][]rx.Val{
		{rx.Int(-1), rx.Int(0), rx.Int(1), rx.Int(2)},
		{rx.Date(0), rx.Date(1), rx.Date(1<<33 + 5), rx.Date(1 << 34), rx.Date(1 << 40)}, // 2242, 2514, 36812
		{rx.Str(""), rx.Str("a"), rx.Str("ab"), rx.Str("é")},
		{rx.Bytes([]byte{}), rx.Bytes([]byte{0}), rx.Bytes([]byte{0, 1})},
		{rx.Bool(true), rx.Bool(false)},
		{rx.SetOf(rx.Int(1)), rx.SetOf(rx.Int(1), rx.Int(2)), rx.SetOf(rx.Int(2), rx.Int(1)), rx.SetOf(rx.Int(3))},
	}
}()

type c04OpCase struct {
	op   rx.Binary
	l, r rx.Val
}

var c04OpCases = func() []c04OpCase {
	var out []c04OpCase
	for op := rx.Binary(0); op < rx.NBinary; op++ {
		for _, g := range c04OpGrid {
			for _, l := range g {
				for _, r := range g {
					out = append(out, c04OpCase{op, l, r})
				}
			}
		}
		// set-and-element pairs, and one ill-typed pair per operator
		out = append(out, c04OpCase{op, rx.SetOf(rx.Int(1), rx.Int(2)), rx.Int(2)}, c04OpCase{op, rx.SetOf(rx.Int(1), rx.Int(2)), rx.Int(3)}, c04OpCase{op, rx.Int(1), rx.Str("a")})
	}
	return out
}()

var c04OpPlaces = []string{"authorizer check", "authority block check", "check of appended block 1", "check of appended block 2", "authorizer check restored by LoadPolicies"}

func c04S7() *sup.Space {
	nc := int64(len(c04OpCases))
	np := int64(len(c04OpPlaces))
	size := nc * np * 2
	return &sup.Space{Name: "S7-operators-wherever-the-check-lives", Size: func(*sup.Ctx) int64 { return size }, Run: func(i int64, w *sup.W) {
		bodyless := i%2 == 1
		i /= 2
		place := int(i % np)
		cs := c04OpCases[i/np]
		var ck refdl.Check
		s := refdl.Scenario{Blocks: []refdl.Block{{}, {}}, Policies: []refdl.Policy{allow(qTrue)}}
		if bodyless {
			ck = chk(qe(nil, []rx.Op{{Kind: rx.OpValue, V: cs.l}, {Kind: rx.OpValue, V: cs.r}, {Kind: rx.OpBinary, B: cs.op}}))
		} else {
			ck = chk(qe([]refdl.Atom{atom("v", vx)}, binExpr(vx, cs.op, cs.r)))
			// the bound value is supplied by the party that does not carry the check
			if place == 0 || place == 4 {
				s.Authority.Facts = []refdl.Atom{atom("v", cs.l)}
			} else {
				s.Auth.Facts = []refdl.Atom{atom("v", cs.l)}
			}
		}
		// an unrelated fact so that no world is empty
		s.Authority.Facts = append(s.Authority.Facts, atom("unrelated", rx.Str("x")))
		switch place {
		case 0, 4:
			s.Auth.Checks = []refdl.Check{ck}
		case 1:
			s.Authority.Checks = []refdl.Check{ck}
		case 2:
			s.Blocks[0].Checks = []refdl.Check{ck}
		case 3:
			s.Blocks[1].Checks = []refdl.Check{ck}
		}
		human := fmt.Sprintf("%s; placement: %s", s.String(), c04OpPlaces[place])
		ref := refdl.Decide(s)
		if ref.Unsettled != "" {
			w.Class("outside-fragment")
			return
		}
		tok, err := cachedToken(w, s.Authority, s.Blocks)
		if err != nil {
			// a value the builder refuses (none is expected in this grid)
			w.Class("build-error")
			w.Violate("S7:token-build-failed", human, err.Error(), "a token")
			return
		}
		var a biscuit.Authorizer
		if place == 4 {
			scratch, _ := biscuit.NewVerifier(tok, hx.LongLimits)
			hx.Load(scratch, s.Auth, s.Policies)
			snap, err := scratch.SerializePolicies()
			if err != nil {
				w.Violate("S7:snapshot-failed", human, err.Error(), "bytes")
				return
			}
			a, _ = biscuit.NewVerifier(tok, hx.LongLimits)
			if err := a.LoadPolicies(snap); err != nil {
				w.Violate("S7:load-failed", human, err.Error(), "nil")
				return
			}
		} else {
			a, _ = hx.Authorizer(tok, s.Auth, s.Policies)
		}
		aerr := a.Authorize()
		got, want := hx.Classify(aerr), hx.RefClass(ref)
		if got != want {
			w.Class("wrong-verdict")
			w.Violate(fmt.Sprintf("S7:verdict:%s:%s-instead-of-%s:%s", rx.Op{Kind: rx.OpBinary, B: cs.op}.String(), got, want, strings.Fields(c04OpPlaces[place])[0]), human, fmt.Sprintf("%s (%v)", got, aerr), fmt.Sprintf("%s (failed checks %v)", want, ref.FailedChecks))
			return
		}
		w.Class(want)
		w.NontrivialByIndex()
		if w.WantSample(want + c04OpPlaces[place]) {
			w.Sample(want+c04OpPlaces[place], map[string]string{"scenario": human, "verdict": want})
		}
	}}
}
