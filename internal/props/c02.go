package props

import (
	"fmt"

	"verif/internal/refdl"
	rx "verif/internal/refexpr"
	"verif/internal/sup"
)

// Authorization vocabulary shared by C02, C03, C12, C13, C18.
var (
	sF, sG     = rx.Str("f"), rx.Str("g")
	sRead      = rx.Str("read")
	sWrite     = rx.Str("write")
	fRightR    = atom("right", sF, sRead)
	fRightW    = atom("right", sF, sWrite)
	fResF      = atom("resource", sF)
	fResG      = atom("resource", sG)
	fOpRead    = atom("operation", sRead)
	fOpWrite   = atom("operation", sWrite)
	fUser      = atom("user", rx.Str("alice"))
	fAdmin     = atom("admin")
	fAllowedF  = atom("allowed", sF)
	rRightRead = rule(atom("right", vx, sRead), atom("resource", vx))
	rEscalate  = rule(atom("right", vx, sWrite), atom("right", vx, sRead))
	rAdmin     = rule(atom("admin"), atom("user", rx.Var("u")))
	rOpWrite   = rule(fOpWrite, fOpRead)
	rAllowed   = rule(atom("allowed", vx), atom("resource", vx))
	rAllowed2  = rule(atom("allowed", vx), atom("right", vx, sRead), atom("resource", vx))
	rAdminExpr = refdl.Rule{Head: fAdmin, Body: []refdl.Atom{atom("resource", vx)}, Exprs: [][]rx.Op{binExpr(vx, rx.Equal, sF)}}
)

// item is one element of a block: a fact, a rule or a check.
type item struct {
	f *refdl.Atom
	r *refdl.Rule
	c *refdl.Check
}

func (it item) addTo(b *refdl.Block) {
	switch {
	case it.f != nil:
		for _, x := range b.Facts {
			if x.Key() == it.f.Key() {
				return
			}
		}
		b.Facts = append(b.Facts, *it.f)
	case it.r != nil:
		b.Rules = append(b.Rules, *it.r)
	case it.c != nil:
		b.Checks = append(b.Checks, *it.c)
	}
}

func itF(a refdl.Atom) item  { return item{f: &a} }
func itR(r refdl.Rule) item  { return item{r: &r} }
func itC(c refdl.Check) item { return item{c: &c} }

// c02Adversarial: what a holder might put in an appended block to widen access.
var c02Adversarial = []item{
	itF(fRightR), itF(fRightW), itF(fOpRead), itF(fOpWrite), itF(fResF), itF(fAdmin), itF(fAllowedF), itF(atom("user", rx.Str("root"))),
	itF(atom("query")), itF(atom("allow")),
	itR(rRightRead), itR(rEscalate), itR(rAdmin), itR(rOpWrite), itR(rAllowed), itR(rAdminExpr),
	itC(chk(qTrue)), itC(chk(qFalse)), itC(chk(q(fRightR))),
}

// itemSets returns the empty set, all singletons and all unordered pairs.
func itemSets(items []item, max int) [][]item {
	out := [][]item{{}}
	for i := range items {
		out = append(out, []item{items[i]})
	}
	if max >= 2 {
		for i := range items {
			for j := i + 1; j < len(items); j++ {
				out = append(out, []item{items[i], items[j]})
			}
		}
	}
	return out
}

func blockOf(items []item) refdl.Block {
	var b refdl.Block
	for _, it := range items {
		it.addTo(&b)
	}
	return b
}

var c02PolicyQueries = []refdl.Rule{qTrue, q(fRightR), q(fRightW), q(fAdmin), q(atom("allowed", vx)), q(fOpWrite)}

func c02Policies() []refdl.Policy {
	var out []refdl.Policy
	for _, x := range c02PolicyQueries {
		out = append(out, allow(x))
	}
	for _, x := range c02PolicyQueries {
		out = append(out, deny(x))
	}
	return out
}

type c02Authority struct {
	blk     refdl.Block
	earlier []refdl.Block
}

func c02Authorities(c *sup.Ctx) []c02Authority {
	factSets := [][]refdl.Atom{{}, {fRightR, fResF}, {fRightR, fResF, fUser}}
	if c.Thorough() {
		factSets = nil
		// (operation facts come from the authorizer; with them here too the product does not
		// finish inside the thorough budget: 7.4e8 triples explored in 40 minutes, capped)
		base := []refdl.Atom{fRightR, fResF, fUser}
		for m := 0; m < 8; m++ {
			var fs []refdl.Atom
			for k, f := range base {
				if m&(1<<uint(k)) != 0 {
					fs = append(fs, f)
				}
			}
			factSets = append(factSets, fs)
		}
	}
	rules := [][]refdl.Rule{{}, {rRightRead}}
	checks := [][]refdl.Check{{}, {chk(q(fOpRead))}}
	if c.Thorough() {
		checks = append(checks, []refdl.Check{chk(q(atom("resource", vx), atom("right", vx, sRead)))})
	}
	// earlier blocks: none; a check-only block; a block with an own fact and a check that only
	// an appended block's content could satisfy; two blocks whose first check fails
	earlier := [][]refdl.Block{
		{},
		{{Checks: []refdl.Check{chk(q(fOpRead))}}},
		{{Facts: []refdl.Atom{fResG}, Checks: []refdl.Check{chk(q(fAdmin))}}},
		{{Checks: []refdl.Check{chk(q(fRightW))}}, {Facts: []refdl.Atom{fResG}, Checks: []refdl.Check{chk(qTrue)}}},
	}
	if c.Thorough() {
		earlier = append(earlier, []refdl.Block{{Facts: []refdl.Atom{fResG}, Rules: []refdl.Rule{rAllowed}}},
			[]refdl.Block{{Facts: []refdl.Atom{atom("user", rx.Str("bob"))}, Checks: []refdl.Check{chk(q(fAllowedF))}}, {Checks: []refdl.Check{chk(q(fOpRead))}}, {Facts: []refdl.Atom{fResG}}})
	}
	var out []c02Authority
	for _, fs := range factSets {
		for _, rs := range rules {
			for _, cs := range checks {
				for _, e := range earlier {
					out = append(out, c02Authority{blk: refdl.Block{Facts: fs, Rules: rs, Checks: cs}, earlier: e})
				}
			}
		}
	}
	return out
}

type c02Authz struct {
	blk refdl.Block
	pol []refdl.Policy
}

func c02Authorizers(c *sup.Ctx) []c02Authz {
	factSets := [][]refdl.Atom{{}, {fOpRead}, {fOpRead, fResF}, {fOpWrite, fResF}}
	if c.Thorough() {
		factSets = nil
		base := []refdl.Atom{fOpRead, fResF, fOpWrite}
		for m := 0; m < 8; m++ {
			var fs []refdl.Atom
			for k, f := range base {
				if m&(1<<uint(k)) != 0 {
					fs = append(fs, f)
				}
			}
			factSets = append(factSets, fs)
		}
	}
	rules := [][]refdl.Rule{{}, {rAllowed2}}
	checks := [][]refdl.Check{{}, {chk(q(fRightR))}}
	pls := policyLists(c02Policies(), 2)
	if c.Quick() {
		// quick: every single policy and every ordered pair of a 6-policy sub-alphabet
		sub := []refdl.Policy{allow(qTrue), allow(q(fRightW)), allow(q(fAdmin)), allow(q(atom("allowed", vx))), deny(q(fOpWrite)), deny(q(fRightR))}
		pls = policyLists(sub, 2)
	}
	var out []c02Authz
	for _, fs := range factSets {
		for _, rs := range rules {
			for _, cs := range checks {
				for _, pl := range pls {
					out = append(out, c02Authz{blk: refdl.Block{Facts: fs, Rules: rs, Checks: cs}, pol: pl})
				}
			}
		}
	}
	return out
}

func init() {
	register(&sup.Check{
		ID:           "C02",
		Level:        "exploration",
		Technique:    "bounded-exhaustive differential enumeration (token, appended block, authorizer) on the real authorizer",
		Rule:         "full product of: authority blocks (fact subsets x optional rule x optional check x optional earlier block) x every appended block made of up to 2 items of a 19-item adversarial alphabet (restated rights, policy-named facts, right-deriving rules, rules with expressions, checks, facts named query/allow) x authorizers (fact subsets x optional rule x optional check x ordered policy lists up to length 2). Oracle: Authorize(T+B,A)=ok implies Authorize(T,A)=ok. Non-trivial = T alone is refused (the appended block had something to gain); distinct by construction.",
		Assume:       []string{"differential oracle between two runs of the implementation; no reference model needed", "signature checking is C01's business: authorizers are created with NewVerifier"},
		Procs:        func(string) int { return 16 },
		SingleThread: true,
		Spaces: func(c *sup.Ctx) []*sup.Space {
			auths := c02Authorities(c)
			blocks := itemSets(c02Adversarial, 2)
			azs := c02Authorizers(c)
			nb, na := int64(len(blocks)), int64(len(azs))
			size := int64(len(auths)) * na * nb
			main := &sup.Space{Name: "append-cannot-widen", Size: func(*sup.Ctx) int64 { return size }, Run: func(i int64, w *sup.W) {
				b := blockOf(blocks[i%nb])
				i /= nb
				az := azs[i%na]
				au := auths[i/na]
				// parent verdict cached per (T, A)
				pk := i
				var parent authOut
				if k, ok := w.Local["pk"].(int64); ok && k == pk {
					parent = w.Local["pv"].(authOut)
				} else {
					tokT, err := cachedToken(w, au.blk, au.earlier)
					if err != nil {
						w.Class("build-error")
						w.Violate("C02:token-build-failed", au.blk.String(), err.Error(), "a token")
						return
					}
					parent = authorize(tokT, az.blk, az.pol)
					w.Local["pk"], w.Local["pv"] = pk, parent
				}
				tokTB, err := cachedToken(w, au.blk, append(append([]refdl.Block{}, au.earlier...), b))
				if err != nil {
					w.Class("append-refused")
					return
				}
				child := authorize(tokTB, az.blk, az.pol)
				human := func() string {
					return fmt.Sprintf("T: authority=%s earlier=%v | appended B=%s | A: %s policies=%v", au.blk, au.earlier, b, az.blk, az.pol)
				}
				if child.Class == "ok" && parent.Class != "ok" {
					w.Class("widened")
					w.Violate("C02:append-widened:"+parent.Class, human(), "T+B authorized, T "+parent.String(), "T+B refused whenever T is refused")
					return
				}
				w.Class("T=" + parent.Class + ",T+B=" + child.Class)
				if parent.Class != "ok" {
					w.NontrivialByIndex()
				}
				cls := parent.Class + "/" + child.Class
				if w.WantSample(cls) {
					w.Sample(cls, map[string]string{"case": human(), "T": parent.String(), "T+B": child.String()})
				}
			}}
			// the small space first: a deadline then cuts only into the large product
			return []*sup.Space{c02ModesSpace(c), main}
		},
	})
}
