package props

import (
	"fmt"

	biscuit "github.com/biscuit-auth/biscuit-go/v2"
	"github.com/biscuit-auth/biscuit-go/v2/datalog"

	"verif/internal/hx"
	"verif/internal/refdl"
	rx "verif/internal/refexpr"
	"verif/internal/sup"
)

// C02, second space: the same oracle (ok(T+B) => ok(T)) over the ways a token
// can legitimately come into being - reloaded from bytes before it is extended
// or authorized, built while another block builder on the same token is open
// (built before or after it), built over a non-default base symbol table.

const (
	c02Plain         = iota
	c02Reload        // every token goes through Serialize+Unmarshal before it is used further
	c02DecoyFirst    // a second builder with a fresh symbol is open and is built FIRST
	c02DecoyLast     // … and is built AFTER the real one
	c02DecoyReload   // c02DecoyFirst, then reload
	c02DecoyLastLoad // c02DecoyLast, then reload
	c02BaseSymbols   // the token is built over WithSymbols(non-empty table)
	c02Twice         // plain construction; the verdict is the one of a SECOND Authorize call on the same authorizer
	c02TwiceReset    // … of an Authorize after Authorize; Reset; the same content again
	c02NModes
)

var c02ModeNames = []string{"plain", "reloaded", "decoy builder built first", "decoy builder built last", "decoy first + reloaded", "decoy last + reloaded", "WithSymbols base table", "second Authorize on one authorizer", "Authorize; Reset; same content; Authorize"}

var c02Base = datalog.SymbolTable{"base0", "file2", "base2"}

func c02Reloaded(t *biscuit.Biscuit, mode int) (*biscuit.Biscuit, error) {
	ser, err := t.Serialize()
	if err != nil {
		return nil, err
	}
	if mode == c02BaseSymbols {
		base := c02Base
		return (&biscuit.Unmarshaler{Symbols: &base}).Unmarshal(ser)
	}
	return biscuit.Unmarshal(ser)
}

// c02Extend appends blk to tok following the construction mode.
func c02Extend(tok *biscuit.Biscuit, blk refdl.Block, mode int, seed uint64) (*biscuit.Biscuit, error) {
	var real, decoy biscuit.BlockBuilder
	decoyContent := refdl.Block{Facts: []refdl.Atom{atom("decoy", rx.Str("decoy-string-1"), rx.Str("decoy-string-2"))}}
	switch mode {
	case c02DecoyFirst, c02DecoyReload:
		real = tok.CreateBlock()
		if err := hx.FillBlock(real, blk); err != nil {
			return nil, err
		}
		decoy = tok.CreateBlock()
		hx.FillBlock(decoy, decoyContent)
		decoy.Build()
	case c02DecoyLast, c02DecoyLastLoad:
		decoy = tok.CreateBlock()
		hx.FillBlock(decoy, decoyContent)
		real = tok.CreateBlock()
		if err := hx.FillBlock(real, blk); err != nil {
			return nil, err
		}
	default:
		real = tok.CreateBlock()
		if err := hx.FillBlock(real, blk); err != nil {
			return nil, err
		}
	}
	b := real.Build()
	if mode == c02DecoyLast || mode == c02DecoyLastLoad {
		// building the abandoned builder afterwards may legitimately fail or panic in the
		// library as it stands (a second builder is never required to be built): ignore it
		sup.Catch(func() { decoy.Build() })
	}
	nt, err := tok.Append(hx.NewRNG(seed), b)
	if err != nil {
		return nil, err
	}
	if mode == c02Reload || mode == c02DecoyReload || mode == c02DecoyLastLoad {
		return c02Reloaded(nt, mode)
	}
	return nt, nil
}

func c02BuildMode(authority refdl.Block, blocks []refdl.Block, mode int) (*biscuit.Biscuit, error) {
	_, priv := hx.Keys(1)
	var b biscuit.Builder
	if mode == c02BaseSymbols {
		base := c02Base
		b = biscuit.NewBuilder(priv, biscuit.WithRNG(hx.NewRNG(42)), biscuit.WithSymbols(&base))
	} else {
		b = biscuit.NewBuilder(priv, biscuit.WithRNG(hx.NewRNG(42)))
	}
	if err := hx.FillBuilder(b, authority); err != nil {
		return nil, err
	}
	tok, err := b.Build()
	if err != nil {
		return nil, err
	}
	if mode == c02Reload || mode == c02DecoyReload || mode == c02DecoyLastLoad {
		if tok, err = c02Reloaded(tok, mode); err != nil {
			return nil, err
		}
	}
	for i, blk := range blocks {
		if tok, err = c02Extend(tok, blk, mode, uint64(43+i)); err != nil {
			return nil, err
		}
	}
	return tok, nil
}

func c02ModesSpace(c *sup.Ctx) *sup.Space {
	file2 := rx.Str("file2")
	factSets := [][]refdl.Atom{{}, {fRightR, fResF}, {fUser}}
	earlier := [][]refdl.Block{
		{},
		{{Checks: []refdl.Check{chk(q(atom("resource", file2)))}}},
		{{Facts: []refdl.Atom{atom("owner", rx.Str("alice"))}, Checks: []refdl.Check{chk(q(atom("resource", file2)))}}, {Facts: []refdl.Atom{fResG}}},
		{{Checks: []refdl.Check{chk(q(atom("right", file2, sRead)), q(atom("owner", rx.Str("bob"))))}}},
	}
	type au struct {
		blk     refdl.Block
		earlier []refdl.Block
	}
	var auths []au
	for _, fs := range factSets {
		for _, e := range earlier {
			auths = append(auths, au{refdl.Block{Facts: fs}, e}, au{refdl.Block{Facts: fs, Checks: []refdl.Check{chk(q(atom("resource", file2)))}}, e})
		}
	}
	// appended blocks: what a holder would add to make a dangling string resolve to something useful
	bitems := append([]item{}, c02Adversarial...)
	bitems = append(bitems, itF(atom("note", rx.Str("f"))), itF(atom("note", rx.Str("bob"))), itF(atom("owner", rx.Str("bob"))), itF(atom("resource", file2)), itF(atom("note", rx.Str("read"), rx.Str("f"))))
	blocks := itemSets(bitems, 1)
	var azs []c02Authz
	for _, fs := range [][]refdl.Atom{{fOpRead}, {fOpRead, fResF}, {fOpRead, atom("resource", rx.Str("bob"))}, {fOpRead, atom("right", rx.Str("f"), sRead), atom("owner", rx.Str("bob"))}} {
		for _, pl := range [][]refdl.Policy{{allow(qTrue)}, {allow(q(fResF))}, {deny(q(fAdmin)), allow(qTrue)}} {
			azs = append(azs, c02Authz{blk: refdl.Block{Facts: fs}, pol: pl})
		}
	}
	nb, na := int64(len(blocks)), int64(len(azs))
	size := int64(len(auths)) * na * nb * (c02NModes - 1)
	return &sup.Space{Name: "append-cannot-widen-construction-modes", Size: func(*sup.Ctx) int64 { return size }, Run: func(i int64, w *sup.W) {
		mode := int(i%(c02NModes-1)) + 1
		i /= c02NModes - 1
		b := blockOf(blocks[i%nb])
		i /= nb
		az := azs[i%na]
		a := auths[i/na]
		human := func() string {
			return fmt.Sprintf("[%s] T: authority=%s earlier=%v | appended B=%s | A: %s policies=%v", c02ModeNames[mode], a.blk, a.earlier, b, az.blk, az.pol)
		}
		var tokT, tokTB *biscuit.Biscuit
		var err error
		if r, stack := sup.Catch(func() {
			tokT, err = c02BuildMode(a.blk, a.earlier, mode)
			if err == nil {
				tokTB, err = c02Extend(tokT, b, mode, 99)
			}
		}); r != nil {
			w.Class("panic")
			w.Violate("C02:panic-while-building:"+sup.PanicSig(stack), human(), fmt.Sprint(r), "tokens")
			return
		}
		if err != nil {
			w.Class("construction-refused")
			return
		}
		verdict := func(t *biscuit.Biscuit) authOut {
			if mode != c02Twice && mode != c02TwiceReset {
				return authorize(t, az.blk, az.pol)
			}
			a, err := hx.Authorizer(t, az.blk, az.pol)
			if err != nil {
				return authOut{Class: "authorizer-error", Err: err}
			}
			a.Authorize()
			if mode == c02TwiceReset {
				a.Reset()
				hx.Load(a, az.blk, az.pol)
			}
			err = a.Authorize()
			return authOut{Class: hx.Classify(err), Failed: hx.FailedChecks(err), Err: err}
		}
		parent := verdict(tokT)
		child := verdict(tokTB)
		if child.Class == "ok" && parent.Class != "ok" {
			w.Class("widened")
			w.Violate("C02:append-widened:"+c02ModeNames[mode], human(), "T+B authorized, T "+parent.String(), "T+B refused whenever T is refused")
			return
		}
		w.Class("T=" + parent.Class + ",T+B=" + child.Class)
		if parent.Class != "ok" {
			w.NontrivialByIndex()
		}
		if w.WantSample(c02ModeNames[mode]) {
			w.Sample(c02ModeNames[mode], map[string]string{"case": human(), "T": parent.String(), "T+B": child.String()})
		}
	}}
}
