package props

import (
	"bytes"
	"fmt"
	"strings"

	biscuit "github.com/biscuit-auth/biscuit-go/v2"
	"github.com/biscuit-auth/biscuit-go/v2/datalog"

	"verif/internal/hx"
	"verif/internal/refdl"
	"verif/internal/sup"
	"verif/internal/wire"
)

// One biscuit.Unmarshaler value (the decoder a service keeps around) loading
// several different tokens: every ordered pair and triple of 8 tokens, over
// the default and over a caller-supplied base table. Each loaded token must be
// what a decoder of its own would have produced, whatever was loaded before
// or after it, and the caller's table must not change.
func c07DecoderSpace() *sup.Space {
	seqs := [][]int{{0}, {1}, {2}, {3}, {0, 1}, {1, 2}, {3, 0}, {2, 3, 1}}
	type order []int
	var orders []order
	n := len(seqs)
	for a := 0; a < n; a++ {
		for b := 0; b < n; b++ {
			if a == b {
				continue
			}
			orders = append(orders, order{a, b})
			for d := 0; d < n; d++ {
				if d != a && d != b {
					orders = append(orders, order{a, b, d})
				}
			}
		}
	}
	bases := []datalog.SymbolTable{{}, {"base0", "alice", "base2"}}
	size := int64(len(orders) * len(bases))
	return &sup.Space{Name: "one-decoder-several-tokens", Size: func(*sup.Ctx) int64 { return size }, Run: func(i int64, w *sup.W) {
		base := bases[i%int64(len(bases))]
		ord := orders[i/int64(len(bases))]
		_, priv := hx.Keys(1)
		build := func(k int) ([]byte, []refdl.Block, error) {
			var supplied []refdl.Block
			for _, x := range seqs[k] {
				supplied = append(supplied, c07Shared[x])
			}
			tbl := append(datalog.SymbolTable{}, base...)
			b := biscuit.NewBuilder(priv, biscuit.WithRNG(hx.NewRNG(uint64(50+k))), biscuit.WithSymbols(&tbl))
			if err := hx.FillBuilder(b, supplied[0]); err != nil {
				return nil, nil, err
			}
			tok, err := b.Build()
			if err != nil {
				return nil, nil, err
			}
			for j, blk := range supplied[1:] {
				bb := tok.CreateBlock()
				if err := hx.FillBlock(bb, blk); err != nil {
					return nil, nil, err
				}
				if tok, err = tok.Append(hx.NewRNG(uint64(60+j)), bb.Build()); err != nil {
					return nil, nil, err
				}
			}
			ser, err := tok.Serialize()
			return ser, supplied, err
		}
		human := fmt.Sprintf("base table %v; one Unmarshaler loads tokens %v in this order (token k = blocks %v of the shared-symbol alphabet)", []string(base), []int(ord), seqs)
		shared := append(datalog.SymbolTable{}, base...)
		u := &biscuit.Unmarshaler{Symbols: &shared}
		var loaded []*biscuit.Biscuit
		var sers [][]byte
		var sup2 [][]refdl.Block
		for _, k := range ord {
			ser, supplied, err := build(k)
			if err != nil {
				w.Violate("C07:build-failed", human, err.Error(), "a token")
				return
			}
			t, err := u.Unmarshal(ser)
			if err != nil {
				w.Class("decoder-refuses")
				w.Violate("C07:shared-decoder-refuses-token", human, err.Error(), "a token")
				return
			}
			loaded, sers, sup2 = append(loaded, t), append(sers, ser), append(sup2, supplied)
			w.Stats().Transitions++
		}
		if strings.Join(shared, ",") != strings.Join(base, ",") {
			w.Class("caller-table-changed")
			w.Violate("C07:decoder-changes-the-callers-symbol-table", human, fmt.Sprint([]string(shared)), fmt.Sprint([]string(base)))
			return
		}
		for j, t := range loaded {
			own := append(datalog.SymbolTable{}, base...)
			fresh, err := (&biscuit.Unmarshaler{Symbols: &own}).Unmarshal(sers[j])
			if err != nil {
				w.Violate("C07:unmarshal-rejects-own-bytes", human, err.Error(), "a token")
				return
			}
			w.Stats().States++
			hj := fmt.Sprintf("%s; token loaded at position %d", human, j)
			if t.String() != fresh.String() {
				w.Class("loaded-content-differs")
				w.Violate("C07:token-from-shared-decoder-prints-differently", hj, t.String(), fresh.String())
				return
			}
			if s2, err := t.Serialize(); err != nil || !bytes.Equal(s2, sers[j]) {
				w.Class("reserialization-differs")
				w.Violate("C07:token-from-shared-decoder-serializes-differently", hj, fmt.Sprintf("%x (%v)", s2, err), fmt.Sprintf("%x", sers[j]))
				return
			}
			a, b := t.RevocationIds(), fresh.RevocationIds()
			if len(a) != len(b) || t.BlockCount() != fresh.BlockCount() {
				w.Violate("C07:token-from-shared-decoder-has-other-blocks", hj, fmt.Sprint(len(a), t.BlockCount()), fmt.Sprint(len(b), fresh.BlockCount()))
				return
			}
			for k := range a {
				if !bytes.Equal(a[k], b[k]) {
					w.Violate("C07:token-from-shared-decoder-has-other-ids", hj, fmt.Sprintf("%x", a[k]), fmt.Sprintf("%x", b[k]))
					return
				}
			}
			for pi, p := range c07Panel {
				if o1, o2 := authorize(t, p.blk, p.pol), authorize(fresh, p.blk, p.pol); o1.String() != o2.String() {
					w.Class("loaded-behaviour-differs")
					w.Violate("C07:token-from-shared-decoder-authorizes-differently", fmt.Sprintf("%s panel %d", hj, pi), o1.String(), o2.String())
					return
				}
			}
			if len(base) == 0 && !c07CheckToken(w, t, sup2[j], nil, hj) {
				return
			}
			if len(base) > 0 {
				// the published symbol rule over a caller-supplied base table: a block's table holds
				// the symbols that are new at that point - nothing of the base table, nothing twice
				env, err := wire.DecodeEnvelope(sers[j])
				if err != nil {
					w.Violate("C07:reference-decoder-rejects-library-bytes", hj, err.Error(), "decodable")
					return
				}
				seen := map[string]bool{}
				for _, b := range base {
					seen[b] = true
				}
				for bi, sb := range append([]wire.SignedBlock{env.Authority}, env.Blocks...) {
					blk, err := wire.DecodeBlock(sb.Block)
					if err != nil {
						w.Violate("C07:block-not-decodable", hj, err.Error(), "decodable")
						return
					}
					for _, sym := range blk.Symbols {
						if seen[sym] {
							w.Class("symbol-rule-broken")
							w.Violate("C07:symbol-or-version-rule", hj, fmt.Sprintf("block %d declares %q again (base table %v)", bi, sym, []string(base)), "tables hold new symbols only")
							return
						}
						seen[sym] = true
					}
				}
			}
		}
		w.Class(fmt.Sprintf("faithful-%d-loads", len(ord)))
		w.NontrivialByIndex()
		if w.WantSample(fmt.Sprint(len(ord))) {
			w.Sample(fmt.Sprint(len(ord)), map[string]string{"history": human})
		}
	}}
}
