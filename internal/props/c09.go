package props

import (
	"bytes"
	"crypto/ed25519"
	"errors"
	"fmt"
	"strings"
	"sync"

	biscuit "github.com/biscuit-auth/biscuit-go/v2"
	"github.com/biscuit-auth/biscuit-go/v2/datalog"

	"verif/internal/hx"
	"verif/internal/refdl"
	"verif/internal/sup"
)

// C09 — sealing freezes a token without changing what it authorizes.

var c09BlockC = refdl.Block{Checks: []refdl.Check{chk(q(fResF))}}

var c09Contents = map[byte]refdl.Block{'P': poolP, 'Q': poolQ, 'C': c09BlockC}

func c09Tokens() []string {
	var out []string
	for _, a := range "PQC" {
		out = append(out, string(a))
		for _, b := range "PQC" {
			out = append(out, string(a)+string(b))
			for _, c := range "PQC" {
				out = append(out, string(a)+string(b)+string(c))
			}
		}
	}
	return out
}

// construction modes of the twins space (bit set)
const (
	c09ModeParentUsed = 1 // before sealing, the token is attenuated (result discarded), inspected, serialized and verified
	c09ModeBaseTable  = 2 // the token is built over WithSymbols(non-empty table) and reloaded through an Unmarshaler with that table
	c09NModes         = 4
)

var c09ModeNames = []string{"plain", "parent used before sealing", "caller-supplied base table", "base table + parent used"}

type c09Panel struct {
	blk refdl.Block
	pol []refdl.Policy
}

var c09Panels = []c09Panel{
	{refdl.Block{Facts: []refdl.Atom{fOpRead}}, []refdl.Policy{allow(qTrue)}},
	{refdl.Block{Facts: []refdl.Atom{fOpWrite}}, []refdl.Policy{allow(qTrue)}},
	{refdl.Block{Facts: []refdl.Atom{fOpRead, fResF}}, []refdl.Policy{allow(qTrue)}},
	{refdl.Block{Facts: []refdl.Atom{fOpRead, fResF}}, []refdl.Policy{deny(q(atom("owner", vx))), allow(qTrue)}},
	{refdl.Block{Facts: []refdl.Atom{fOpRead, fResF}}, []refdl.Policy{allow(q(atom("allowed", vx)))}},
	{refdl.Block{Facts: []refdl.Atom{fOpRead}, Checks: []refdl.Check{chk(q(atom("right", vx, sRead)))}}, []refdl.Policy{allow(qTrue)}},
	{refdl.Block{}, nil},
	{refdl.Block{Facts: []refdl.Atom{fOpRead, fResF}, Rules: []refdl.Rule{rAllowed}}, []refdl.Policy{allow(q(fAllowedF))}},
}

// c09Token builds authority + blocks, optionally with root key id 7.
func c09Token(seed uint64, authority refdl.Block, blocks []refdl.Block, withID bool, base *datalog.SymbolTable) (*biscuit.Biscuit, error) {
	_, priv := hx.Keys(1)
	// identifier 0 (the zero value, easily confused with "absent") or 7
	id := biscuit.WithRootKeyID(uint32(7 * ((seed >> 1) % 2)))
	var b biscuit.Builder
	switch {
	case withID && base != nil:
		b = biscuit.NewBuilder(priv, biscuit.WithRNG(hx.NewRNG(seed)), id, biscuit.WithSymbols(base))
	case withID:
		b = biscuit.NewBuilder(priv, biscuit.WithRNG(hx.NewRNG(seed)), id)
	case base != nil:
		b = biscuit.NewBuilder(priv, biscuit.WithRNG(hx.NewRNG(seed)), biscuit.WithSymbols(base))
	default:
		b = biscuit.NewBuilder(priv, biscuit.WithRNG(hx.NewRNG(seed)))
	}
	if err := hx.FillBuilder(b, authority); err != nil {
		return nil, err
	}
	tok, err := b.Build()
	if err != nil {
		return nil, err
	}
	for i, blk := range blocks {
		bb := tok.CreateBlock()
		if err := hx.FillBlock(bb, blk); err != nil {
			return nil, err
		}
		tok, err = tok.Append(hx.NewRNG(seed+uint64(i)+1), bb.Build())
		if err != nil {
			return nil, err
		}
	}
	return tok, nil
}

func c09Describe(tok *biscuit.Biscuit, rootOK, rootBad int) string {
	var obs []string
	// key selection by identifier: id 0 or 7 -> right key, default -> wrong key, and the reverse table
	right, wrong := rootPub(rootOK), rootPub(rootBad)
	for ti, src := range []biscuit.PublickKeyByIDProjection{
		biscuit.WithRootPublicKeys(map[uint32]ed25519.PublicKey{0: right, 7: right}, &wrong),
		biscuit.WithRootPublicKeys(map[uint32]ed25519.PublicKey{0: wrong, 7: wrong}, &right),
		biscuit.WithRootPublicKeys(map[uint32]ed25519.PublicKey{8: right}, nil),
	} {
		_, err := tok.AuthorizerFor(src, hx.LongLimits)
		switch {
		case err == nil:
			obs = append(obs, fmt.Sprintf("table%d:verified", ti))
		case errors.Is(err, biscuit.ErrNoPublicKeyAvailable):
			obs = append(obs, fmt.Sprintf("table%d:no-key", ti))
		default:
			obs = append(obs, fmt.Sprintf("table%d:rejected", ti))
		}
	}
	if id := tok.RootKeyID(); id != nil {
		obs = append(obs, fmt.Sprintf("keyid=%d", *id))
	} else {
		obs = append(obs, "keyid=absent")
	}
	for _, r := range []int{rootOK, rootBad} {
		a, err := tok.AuthorizerFor(biscuit.WithSingularRootPublicKey(rootPub(r)), hx.LongLimits)
		if err != nil {
			obs = append(obs, "root"+fmt.Sprint(r)+":rejected")
			continue
		}
		obs = append(obs, "root"+fmt.Sprint(r)+":verified")
		_ = a
		for pi, p := range c09Panels {
			a, _ := tok.AuthorizerFor(biscuit.WithSingularRootPublicKey(rootPub(r)), hx.LongLimits)
			hx.Load(a, p.blk, p.pol)
			obs = append(obs, fmt.Sprintf("panel%d=%s", pi, hx.Classify(a.Authorize())))
		}
	}
	return strings.Join(obs, " ")
}

func init() {
	register(&sup.Check{
		ID:        "C09",
		Level:     "model_checking",
		Technique: "differential enumeration sealed vs unsealed twins over all small token histories x an authorizer panel, plus explicit-state search of edits of sealed envelopes (C01 machinery restricted to the seal, the last block and the last announced key) on the real code",
		Rule:      "twins: every token with 1-3 blocks over contents {P, Q, C} (39 tokens) x 4 construction modes (plain; the token attenuated, inspected, serialized and verified before it is sealed; built over a caller-supplied base symbol table; both), its sealed twin, both after Serialize+Unmarshal, and the token sealed after a reload; observation = verification under the right and a wrong root, the outcome class of 8 authorizer contents, the revocation identifiers; Append and Seal on both sealed forms must return an error and no token. Edits: from every sealed pool token, every envelope within 2 edits that touch the seal signature, the last block or the last announced key (field substitution from the full universe, flipped/truncated/extended variants, signatures and seals computable by the attacker, proof replacement) - accepted only if the reference chain predicate holds. Non-trivial = token with at least one later block (twins) / every edited state; distinct by construction.",
		Assume:    []string{"same trusted base as C01 for the edit search"},
		Spaces: func(c *sup.Ctx) []*sup.Space {
			toks := c09Tokens()
			twins := &sup.Space{Name: "sealed-vs-unsealed-twins", Size: func(*sup.Ctx) int64 { return int64(len(toks)) * c09NModes }, Run: func(i int64, w *sup.W) {
				mode := int(i % c09NModes)
				i /= c09NModes
				name := toks[i]
				var blocks []refdl.Block
				for _, ch := range name[1:] {
					blocks = append(blocks, c09Contents[byte(ch)])
				}
				withID := i%2 == 1 // every second token carries a root key id
				var baseTable *datalog.SymbolTable
				if mode&c09ModeBaseTable != 0 {
					// a caller-supplied base table holding strings the contents use, so that indexes differ from a default-table token
					baseTable = &datalog.SymbolTable{"base0", "alice", "file1"}
				}
				u, err := c09Token(uint64(i)+10, c09Contents[name[0]], blocks, withID, baseTable)
				if err != nil {
					w.Violate("C09:build-failed", name, err.Error(), "a token")
					return
				}
				nb := len(name)
				name = name + " (" + c09ModeNames[mode] + ")"
				if mode&c09ModeParentUsed != 0 {
					// the token has a life before it is sealed: it is attenuated (the result goes elsewhere), inspected, verified
					bb := u.CreateBlock()
					hx.FillBlock(bb, poolQ)
					if nt, err := u.Append(hx.NewRNG(77), bb.Build()); err != nil || nt == nil {
						w.Violate("C09:append-on-unsealed-failed", name, fmt.Sprint(err), "a token")
						return
					}
					u.RevocationIds()
					u.Serialize()
					_ = u.String()
					u.GetBlockID(biscuit.Fact{Predicate: biscuit.Predicate{Name: "owner", IDs: []biscuit.Term{biscuit.String("alice")}}})
					u.AuthorizerFor(biscuit.WithSingularRootPublicKey(rootPub(1)), hx.LongLimits)
				}
				s, err := u.Seal(hx.NewRNG(99))
				if err != nil || s == nil {
					w.Violate("C09:seal-failed", name, fmt.Sprint(err), "a sealed token")
					return
				}
				rt := func(t *biscuit.Biscuit) *biscuit.Biscuit {
					ser, err := t.Serialize()
					if err != nil {
						return nil
					}
					var n *biscuit.Biscuit
					if baseTable != nil {
						n, err = (&biscuit.Unmarshaler{Symbols: &datalog.SymbolTable{"base0", "alice", "file1"}}).Unmarshal(ser)
					} else {
						n, err = biscuit.Unmarshal(ser)
					}
					if err != nil {
						return nil
					}
					return n
				}
				u2, s2 := rt(u), rt(s)
				var s3 *biscuit.Biscuit // sealed from the reloaded unsealed token
				if u2 != nil {
					s3, _ = u2.Seal(hx.NewRNG(98))
				}
				if u2 == nil || s2 == nil || s3 == nil {
					w.Violate("C09:roundtrip-failed", name, "Serialize/Unmarshal error", "tokens")
					return
				}
				w.Stats().States += 5
				w.Stats().Transitions += 5
				base := c09Describe(u, 1, 2)
				type lt struct {
					label string
					t     *biscuit.Biscuit
				}
				for _, x := range []lt{{"sealed", s}, {"unsealed-reloaded", u2}, {"sealed-reloaded", s2}, {"sealed-after-reload", s3}} {
					label, t := x.label, x.t
					if got := c09Describe(t, 1, 2); got != base {
						w.Class("twin-differs")
						w.Violate("C09:"+label+"-behaves-differently", "token "+name, got, base)
						return
					}
					ids, bids := t.RevocationIds(), u.RevocationIds()
					same := len(ids) == len(bids)
					for k := range ids {
						if same && !bytes.Equal(ids[k], bids[k]) {
							same = false
						}
					}
					if !same {
						w.Class("ids-differ")
						w.Violate("C09:"+label+"-revocation-ids-differ", "token "+name, fmt.Sprintf("%x", ids), fmt.Sprintf("%x", bids))
						return
					}
				}
				for _, x := range []lt{{"sealed", s}, {"sealed-reloaded", s2}, {"sealed-after-reload", s3}} {
					label, t := x.label, x.t
					bb := t.CreateBlock()
					hx.FillBlock(bb, poolQ)
					nt, err := t.Append(hx.NewRNG(5), bb.Build())
					if err == nil || nt != nil {
						w.Class("extended-sealed")
						w.Violate("C09:append-on-"+label+"-token-succeeds", "token "+name, "a token", "an error and no token")
						return
					}
					nt, err = t.Seal(hx.NewRNG(6))
					if err == nil || nt != nil {
						w.Class("resealed")
						w.Violate("C09:seal-on-"+label+"-token-succeeds", "token "+name, "a token", "an error and no token")
						return
					}
				}
				w.Class(fmt.Sprintf("%d-blocks", nb))
				if nb > 1 {
					w.NontrivialByIndex()
				}
				if w.WantSample(fmt.Sprint(nb)) {
					w.Sample(fmt.Sprint(nb), map[string]string{"token": name, "observation": base})
				}
			}}
			var pool []*poolToken
			var full *c01Universe
			edits := &sup.Space{Name: "edits-of-sealed-envelopes", RunAll: func(c *sup.Ctx) {
				p, err := buildPool(3)
				if err != nil {
					w := c.NewW("edits-of-sealed-envelopes")
					w.Violate("C09:pool-construction-failed", "pool", err.Error(), "tokens")
					c.Merge(w)
					return
				}
				pool = p
				full = c01BuildUniverse(pool)
				var sealed []*poolToken
				for _, t := range pool {
					if t.Sealed && (c.Thorough() || len(t.Content) <= 2) {
						sealed = append(sealed, t)
					}
				}
				c09Explore(c, sealed, full)
			}, ReplayCase: c01ReplayGeneric}
			return []*sup.Space{twins, edits}
		},
	})
}

// c09Explore: depth-2 search from sealed tokens with edits restricted to the
// seal, the last block and the last announced key.
func c09Explore(c *sup.Ctx, seeds []*poolToken, u *c01Universe) {
	name := "edits-of-sealed-envelopes"
	var wg sync.WaitGroup
	sem := make(chan struct{}, c.Threads())
	for _, t := range seeds {
		t := t
		wg.Add(1)
		w := c.NewW(name)
		go func() {
			sem <- struct{}{}
			defer func() { <-sem; c.Merge(w); wg.Done() }()
			// one visited set per seed: the search from a seed is level-ordered, so
			// a state is always expanded at its minimal depth from that seed
			seen := newHashSet()
			lastIdx := len(t.Env.Blocks)
			frontier := []*c01State{{env: t.Env.Clone(), seed: t.Name}}
			for d := 1; d <= 2; d++ {
				var next []*c01State
				for _, st := range frontier {
					if c.Expired() {
						w.Stats().Exhaustive = false
						return
					}
					for _, ed := range c09LastBlockEdits(st.env, u, lastIdx) {
						ne := st.env.Clone()
						if r, _ := sup.Catch(func() { ed.apply(ne) }); r != nil {
							continue
						}
						w.Stats().Transitions++
						ser := ne.Encode()
						if !seen.add(ser) {
							continue
						}
						w.Stats().States++
						w.NontrivialByIndex()
						ns := &c01State{env: ne, path: append(append([]string{}, st.path...), ed.name), seed: st.seed}
						w.SetCase(c01Case{Seed: ns.seed, Path: ns.path, Hex: fmt.Sprintf("%x", ser)})
						sup.Guard(w, fmt.Sprintf("%s %v", ns.seed, ns.path), func() { c01Verify(w, u, ns, ser) })
						if d < 2 {
							next = append(next, ns)
						}
					}
				}
				frontier = next
			}
			w.Stats().MaxDepth = 2
			w.Stats().Bound = fmt.Sprintf("all envelopes within 2 restricted edits of %d sealed pool tokens", len(seeds))
		}()
	}
	wg.Wait()
}

// c09LastBlockEdits: the C01 edits that touch block lastIdx's fields or the proof.
func c09LastBlockEdits(e *wire09Env, u *c01Universe, lastIdx int) []c01Edit {
	if lastIdx > len(e.Blocks) {
		lastIdx = len(e.Blocks)
	}
	var out []c01Edit
	cur := *blockAt(e, lastIdx)
	add := func(name string, f func(x *wire09Env)) { out = append(out, c01Edit{name, f}) }
	i := lastIdx
	for _, p := range u.payloads {
		if !bytes.Equal(p, cur.Block) {
			p := p
			add("last-payload:=universe", func(x *wire09Env) { blockAt(x, i).Block = p })
		}
	}
	for _, m := range mutBytes(cur.Block) {
		b := m[1].([]byte)
		add("last-payload:"+m[0].(string), func(x *wire09Env) { blockAt(x, i).Block = b })
	}
	for _, k := range u.keys {
		if !bytes.Equal(k, cur.Key) {
			k := k
			add("last-key:=universe", func(x *wire09Env) { blockAt(x, i).Key = k })
		}
	}
	for _, m := range mutBytes(cur.Key) {
		b := m[1].([]byte)
		add("last-key:"+m[0].(string), func(x *wire09Env) { blockAt(x, i).Key = b })
	}
	for _, s := range u.sigs {
		if !bytes.Equal(s, cur.Sig) {
			s := s
			add("last-sig:=universe", func(x *wire09Env) { blockAt(x, i).Sig = s })
		}
	}
	for _, m := range mutBytes(cur.Sig) {
		b := m[1].([]byte)
		add("last-sig:"+m[0].(string), func(x *wire09Env) { blockAt(x, i).Sig = b })
	}
	for _, k := range u.known {
		k := k
		add("last-sig:=attacker-signs", func(x *wire09Env) {
			b := blockAt(x, i)
			b.Sig = edSign(k, b)
		})
		add("seal:=attacker-seals", func(x *wire09Env) { x.Proof = sealWith(k, x) })
	}
	for _, f := range u.finals {
		f := f
		add("seal:=pool-seal", func(x *wire09Env) { x.Proof.Final = f; x.Proof.Secret = nil })
	}
	for _, s := range u.secrets {
		s := s
		add("seal:=pool-secret(unseal)", func(x *wire09Env) { x.Proof.Secret = s; x.Proof.Final = nil })
	}
	if e.Proof.Final != nil {
		for _, m := range mutBytes(e.Proof.Final) {
			b := m[1].([]byte)
			add("seal:"+m[0].(string), func(x *wire09Env) { x.Proof.Final = b })
		}
	}
	add("seal:=empty", func(x *wire09Env) { x.Proof.Final = nil; x.Proof.Secret = nil })
	add("drop-last-block-keep-seal", func(x *wire09Env) {
		if len(x.Blocks) > 0 {
			x.Blocks = x.Blocks[:len(x.Blocks)-1]
		}
	})
	return out
}
