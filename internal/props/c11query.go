//go:build vsched

package props

import (
	"errors"
	"fmt"
	"strings"
	"time"

	biscuit "github.com/biscuit-auth/biscuit-go/v2"
	"github.com/biscuit-auth/biscuit-go/v2/datalog"

	"verif/internal/hx"
	"verif/internal/refdl"
	rx "verif/internal/refexpr"
	"verif/internal/sup"
)

// Limits are honoured by Query too, whatever happened to the authorizer before:
// every sequence of up to 3 operations over {Query, LoadPolicies(six facts),
// LoadPolicies(a three-round rule chain), Reset} followed by a Query, on an
// authorizer created with WithMaxFacts(3) or WithMaxIterations(1). Model: the
// content loaded since the last Reset; the final Query must report the limit
// iff that content exceeds it, and succeed otherwise.
func c11QueryAfterLoad() *sup.Space {
	six := refdl.Block{Facts: []refdl.Atom{atom("f", rx.Int(1)), atom("f", rx.Int(2)), atom("f", rx.Int(3)), atom("f", rx.Int(4)), atom("f", rx.Int(5)), atom("f", rx.Int(6))}}
	chain := refdl.Block{Facts: []refdl.Atom{atom("p", i0)}, Rules: []refdl.Rule{rule(atom("q", vx), atom("p", vx)), rule(atom("r", vx, vx), atom("q", vx)), rule(atom("z"), atom("r", vx, vx))}}
	ops := []string{"Query", "LoadPolicies(six facts)", "LoadPolicies(three-round chain)", "Reset"}
	var seqs [][]int
	var rec func(cur []int)
	rec = func(cur []int) {
		seqs = append(seqs, append([]int{}, cur...))
		if len(cur) == 3 {
			return
		}
		for o := range ops {
			rec(append(cur, o))
		}
	}
	rec(nil)
	lims := []struct {
		name string
		opt  datalog.WorldOption
		err  error
	}{
		{"WithMaxFacts(3)", datalog.WithMaxFacts(3), datalog.ErrWorldRunLimitMaxFacts},
		{"WithMaxIterations(1)", datalog.WithMaxIterations(1), datalog.ErrWorldRunLimitMaxIterations},
	}
	size := int64(len(seqs) * len(lims))
	return &sup.Space{Name: "query-honours-limits-after-any-history", Size: func(*sup.Ctx) int64 { return size }, Run: func(i int64, w *sup.W) {
		lim := lims[i%int64(len(lims))]
		sq := seqs[i/int64(len(lims))]
		var names []string
		for _, o := range sq {
			names = append(names, ops[o])
		}
		human := fmt.Sprintf("NewVerifier(empty token, %s); %s; Query", lim.name, strings.Join(names, "; "))
		tok, err := hx.Token(1, 5, refdl.Block{}, nil)
		if err != nil {
			w.Violate("C11:token-build-failed", human, err.Error(), "a token")
			return
		}
		hasSix, hasChain := false, false
		var qerr error
		var loadErr error
		x := seq(func() {
			snap := func(b refdl.Block) []byte {
				s, _ := biscuit.NewVerifier(tok, hx.LongLimits)
				hx.Load(s, b, []refdl.Policy{allow(qTrue)})
				out, _ := s.SerializePolicies()
				return out
			}
			a, err := biscuit.NewVerifier(tok, biscuit.WithWorldOptions(datalog.WithMaxDuration(time.Hour), lim.opt))
			if err != nil {
				loadErr = err
				return
			}
			probe := hx.Rule(rule(atom("out", vx), atom("f", vx)))
			for _, o := range sq {
				switch o {
				case 0:
					a.Query(probe)
				case 1:
					if e := a.LoadPolicies(snap(six)); e != nil {
						loadErr = e
						return
					}
					hasSix = true
				case 2:
					if e := a.LoadPolicies(snap(chain)); e != nil {
						loadErr = e
						return
					}
					hasChain = true
				case 3:
					a.Reset()
					hasSix, hasChain = false, false
				}
			}
			_, qerr = a.Query(probe)
		})
		if c11ExecProblems(w, x, human, "query-after-load") {
			return
		}
		if loadErr != nil {
			// the library may refuse a load on a used authorizer; that is not this property's business
			w.Class("load-refused")
			return
		}
		w.NontrivialByIndex()
		over := false
		switch lim.name {
		case "WithMaxFacts(3)":
			over = hasSix || hasChain // six facts, or p q r z
		default:
			over = hasChain
		}
		switch {
		case over && !errors.Is(qerr, lim.err):
			w.Class("limit-ignored")
			w.Violate("C11:query:limit-not-honoured", human, fmt.Sprint(qerr), lim.err.Error())
		case !over && qerr != nil:
			w.Class("spurious-limit")
			w.Violate("C11:query:spurious-error", human, qerr.Error(), "nil")
		default:
			w.Class(errClass(qerr))
		}
	}}
}
