package props

import (
	"crypto/ed25519"
	"fmt"
	"strings"

	biscuit "github.com/biscuit-auth/biscuit-go/v2"

	"verif/internal/hx"
	"verif/internal/refdl"
	rx "verif/internal/refexpr"
	"verif/internal/sup"
	"verif/internal/wire"
)

// C10 — untrusted token bytes can never crash the verifier. Every input goes
// through the whole operation panel on the UNMODIFIED library; a panic on a
// library-owned goroutine terminates the child process, which the supervisor
// attributes to the marked case (that is what a user would see).

// authorizer contents of the panel: they bind and compare whatever the token carries
var c10Panel = []c09Panel{
	{refdl.Block{Facts: []refdl.Atom{fOpRead}}, []refdl.Policy{allow(qTrue)}},
	{refdl.Block{Rules: []refdl.Rule{
		rule(atom("seen", vx), atom("f", vx)),
		{Head: atom("same", vx), Body: []refdl.Atom{atom("f", vx), atom("f", vy)}, Exprs: [][]rx.Op{binExpr(vx, rx.Equal, vy)}},
		{Head: atom("sub", vx), Body: []refdl.Atom{atom("f", vx), atom("f", vy)}, Exprs: [][]rx.Op{binExpr(vx, rx.Contains, vy)}},
	}}, []refdl.Policy{allow(q(atom("same", vx))), deny(qTrue)}},
	{refdl.Block{Rules: []refdl.Rule{
		{Head: atom("u", vx), Body: []refdl.Atom{atom("f", vx), atom("f", vy)}, Exprs: [][]rx.Op{{{Kind: rx.OpValue, V: vx}, {Kind: rx.OpValue, V: vy}, {Kind: rx.OpBinary, B: rx.Union}, {Kind: rx.OpUnary, U: rx.Length}, {Kind: rx.OpValue, V: rx.Int(0)}, {Kind: rx.OpBinary, B: rx.GreaterThan}}}},
		{Head: atom("i", vx), Body: []refdl.Atom{atom("f", vx), atom("f", vy)}, Exprs: [][]rx.Op{{{Kind: rx.OpValue, V: vx}, {Kind: rx.OpValue, V: vy}, {Kind: rx.OpBinary, B: rx.Intersection}, {Kind: rx.OpValue, V: vx}, {Kind: rx.OpBinary, B: rx.Equal}}}},
	}, Checks: []refdl.Check{chk(q(atom("f", vx)), q(atom("g", vx, vy)))}}, []refdl.Policy{allow(q(atom("u", vx))), allow(qTrue)}},
	{refdl.Block{Facts: []refdl.Atom{atom("f", rx.SetOf(rx.Bytes([]byte{1}))), atom("f", rx.Str("x")), atom("f", rx.Int(1))}, Rules: []refdl.Rule{rule(atom("g", vx, vy), atom("f", vx), atom("f", vy))}}, []refdl.Policy{deny(q(atom("g", vx, vx))), allow(qTrue)}},
	{refdl.Block{Facts: []refdl.Atom{atom("h", rx.Int(1))}, Rules: []refdl.Rule{rule(atom("h2", vx), atom("h", vx)), rule(atom("anyq", vx), atom("query", vx))}}, []refdl.Policy{allow(q(atom("h2", vx))), allow(q(atom("anyq", vx)))}},
}

var c10Queries = []refdl.Rule{rule(atom("out", vx), atom("f", vx)), rule(atom("out", vx, vy), atom("g", vx, vy)), rule(atom("out", vx), atom("h", vx))}

// c10Exercise runs the whole operation panel on a byte string. It returns a short
// description of what happened (for the evidence) - any panic propagates.
func c10Exercise(data []byte, roots []ed25519.PublicKey) string {
	tok, err := biscuit.Unmarshal(data)
	if err != nil {
		return "unmarshal-error"
	}
	_ = tok.String()
	_ = tok.Code()
	_ = tok.Checks()
	_ = tok.GetContext()
	_ = tok.BlockCount()
	_ = tok.RevocationIds()
	_ = tok.RootKeyID()
	tok.Serialize()
	tok.GetBlockID(hx.Fact(atom("f", rx.Int(1))))
	tok.GetBlockID(hx.Fact(atom("never", rx.Str("seen"))))
	res := "rejected"
	for ri, root := range roots {
		a, err := tok.AuthorizerFor(biscuit.WithSingularRootPublicKey(root), hx.LongLimits)
		if err != nil {
			continue
		}
		if ri == 0 {
			res = "verified"
		}
		for _, p := range c10Panel {
			hx.Load(a, p.blk, p.pol)
			for _, qr := range c10Queries[:1] {
				a.Query(hx.Rule(qr))
			}
			if a.Authorize() == nil && ri == 0 {
				res = "authorized"
			}
			for _, qr := range c10Queries {
				a.Query(hx.Rule(qr))
			}
			_ = a.PrintWorld()
			a.SerializePolicies()
			a.Reset()
		}
	}
	// key lookup by identifier: the identifier (or its absence) is the sender's choice
	if len(roots) > 0 {
		def := roots[0]
		for _, ks := range []biscuit.PublickKeyByIDProjection{
			biscuit.WithRootPublicKeys(map[uint32]ed25519.PublicKey{}, nil),
			biscuit.WithRootPublicKeys(nil, nil),
			biscuit.WithRootPublicKeys(map[uint32]ed25519.PublicKey{0: roots[0]}, nil),
			biscuit.WithRootPublicKeys(map[uint32]ed25519.PublicKey{4294967295: roots[0]}, &def),
		} {
			tok.AuthorizerFor(ks, hx.LongLimits)
		}
	}
	// signature checking skipped: whatever Unmarshal accepted can be evaluated by NewVerifier too
	if a, err := biscuit.NewVerifier(tok, hx.LongLimits); err == nil {
		hx.Load(a, c10Panel[1].blk, c10Panel[1].pol)
		a.Authorize()
		_ = a.PrintWorld()
	}
	// two attenuations prepared side by side on the received token
	b1 := tok.CreateBlock()
	b1.AddFact(hx.Fact(atom("added", rx.Str("first-holder"), rx.Str("x"))))
	b2 := tok.CreateBlock()
	b2.AddFact(hx.Fact(atom("added", rx.Str("second-holder"), rx.Str("y"))))
	b1.Build()
	b2.Build()
	bb := tok.CreateBlock()
	bb.AddFact(hx.Fact(atom("added", rx.Str("by-holder"), rx.Str("x"))))
	if nt, err := tok.Append(hx.NewRNG(1), bb.Build()); err == nil && nt != nil {
		_ = nt.String()
		nt.Serialize()
	}
	if st, err := tok.Seal(hx.NewRNG(2)); err == nil && st != nil {
		st.Serialize()
		_ = st.String()
	}
	return res
}

func c10Run(w *sup.W, human string, data []byte, roots []ed25519.PublicKey) {
	var res string
	if r, stack := sup.Catch(func() { res = c10Exercise(data, roots) }); r != nil {
		w.Class("panic")
		w.Violate("C10:panic:"+sup.PanicSig(stack), human, fmt.Sprintf("%v\n%s", r, firstLibFrames(stack)), "every call returns a value or an error")
		return
	}
	w.Class(res)
	w.NontrivialByIndex()
	if w.WantSample(res) {
		w.Sample(res, map[string]string{"input": human, "outcome": res})
	}
}

func firstLibFrames(stack string) string {
	var out []string
	for _, l := range strings.Split(stack, "\n") {
		if strings.Contains(l, "biscuit-go") {
			out = append(out, strings.TrimSpace(l))
		}
		if len(out) >= 8 {
			break
		}
	}
	return strings.Join(out, "\n")
}

// ---- layer 1: byte neighbourhoods of library-made tokens ----------------------------------------------

func c10BaseTokens() ([][]byte, error) {
	var out [][]byte
	add := func(t *biscuit.Biscuit, err error) error {
		if err != nil {
			return err
		}
		b, err := t.Serialize()
		if err != nil {
			return err
		}
		out = append(out, b)
		return nil
	}
	var facts, exprs refdl.Block
	for _, it := range c07Items {
		switch {
		case it.f != nil && len(facts.Facts) < 12:
			it.addTo(&facts)
		case it.c != nil:
			it.addTo(&exprs)
		case it.r != nil:
			it.addTo(&exprs)
		}
	}
	if err := add(hx.Token(1, 1, facts, nil)); err != nil {
		return nil, err
	}
	if err := add(hx.Token(1, 2, exprs, nil)); err != nil {
		return nil, err
	}
	if err := add(hx.Token(1, 3, c07Shared[0], []refdl.Block{c07Shared[1], c07Shared[2]})); err != nil {
		return nil, err
	}
	if err := add(c07Build(c07Shared[0], []refdl.Block{c07Shared[3]}, u32(7), true, -1)); err != nil {
		return nil, err
	}
	if err := add(hx.Token(1, 4, refdl.Block{}, nil)); err != nil {
		return nil, err
	}
	if err := add(hx.Token(1, 5, poolP, []refdl.Block{poolQ, exprs})); err != nil {
		return nil, err
	}
	return out, nil
}

// ---- layer 2: structural deviations of a benign, attacker-signed token -----------------------------------

type c10Tok struct {
	blocks []*wire.Block
	// envelope-level deviations are applied after signing
	post []func(e *wire.Envelope)
	n    int // number of blocks to keep (0 = all)
}

func c10Benign() *c10Tok {
	tab := &wire.Table{}
	a := wire.EncodeBlock(tab, refdl.Block{
		Facts:  []refdl.Atom{atom("f", rx.SetOf(rx.Int(1), rx.Int(2))), atom("f", rx.Str("abc")), atom("g", rx.Int(1), rx.Bytes([]byte{1}))},
		Rules:  []refdl.Rule{{Head: atom("h", vx), Body: []refdl.Atom{atom("f", vx)}, Exprs: [][]rx.Op{binExpr(vx, rx.Equal, rx.Str("abc"))}}},
		Checks: []refdl.Check{chk(q(atom("f", vx)), qe([]refdl.Atom{atom("g", vx, vy)}, binExpr(vx, rx.LessThan, rx.Int(5))))},
	})
	b := wire.EncodeBlock(tab, refdl.Block{Facts: []refdl.Atom{atom("f", rx.Date(5))}, Rules: []refdl.Rule{rule(atom("g", vx, vx), atom("f", vx))}})
	c := wire.EncodeBlock(tab, refdl.Block{Checks: []refdl.Check{chk(q(atom("operation", rx.Str("read"))), q(atom("f", vx)))}, Context: "ctx"})
	return &c10Tok{blocks: []*wire.Block{a, b, c}}
}

type c10Dev struct {
	name  string
	apply func(t *c10Tok)
}

func c10Sign(t *c10Tok) []byte {
	_, apriv := attackerKey()
	var raw [][]byte
	n := len(t.blocks)
	if t.n > 0 && t.n < n {
		n = t.n
	}
	for _, b := range t.blocks[:n] {
		raw = append(raw, b.Encode())
	}
	env := wire.SignChain(apriv, raw, 9500, false)
	for _, p := range t.post {
		p(env)
	}
	return env.Encode()
}

var c10Indexes = []uint64{27, 28, 1023, 1024 + 40, 1<<31 - 1, 1 << 31, 1<<32 - 1, 1 << 32, 1 << 63, 1<<64 - 1}

func c10Deviations(exprLen int) []c10Dev {
	var out []c10Dev
	add := func(name string, f func(t *c10Tok)) { out = append(out, c10Dev{name, f}) }
	for _, idx := range c10Indexes {
		idx := idx
		add(fmt.Sprintf("fact name index %d", idx), func(t *c10Tok) { t.blocks[0].Facts[1].Name = idx })
		add(fmt.Sprintf("fact string term index %d", idx), func(t *c10Tok) { t.blocks[0].Facts[1].Terms[0] = wire.Term{Kind: wire.TString, U: idx} })
		add(fmt.Sprintf("rule head name index %d", idx), func(t *c10Tok) { t.blocks[0].Rules[0].Head.Name = idx })
		add(fmt.Sprintf("rule head variable index %d", idx), func(t *c10Tok) {
			t.blocks[0].Rules[0].Head.Terms[0] = wire.Term{Kind: wire.TVariable, U: idx}
			t.blocks[0].Rules[0].Body[0].Terms[0] = wire.Term{Kind: wire.TVariable, U: idx}
		})
		add(fmt.Sprintf("rule body name index %d", idx), func(t *c10Tok) { t.blocks[1].Rules[0].Body[0].Name = idx })
		add(fmt.Sprintf("check query name index %d", idx), func(t *c10Tok) { t.blocks[2].Checks[0].Queries[0].Body[0].Name = idx })
		add(fmt.Sprintf("check query string term index %d", idx), func(t *c10Tok) {
			t.blocks[2].Checks[0].Queries[0].Body[0].Terms[0] = wire.Term{Kind: wire.TString, U: idx}
		})
		add(fmt.Sprintf("expression string index %d", idx), func(t *c10Tok) {
			t.blocks[0].Rules[0].Exprs[0][1] = wire.Op{Kind: wire.OValue, Term: wire.Term{Kind: wire.TString, U: idx}}
		})
		add(fmt.Sprintf("expression variable index %d", idx), func(t *c10Tok) {
			t.blocks[0].Rules[0].Exprs[0][0] = wire.Op{Kind: wire.OValue, Term: wire.Term{Kind: wire.TVariable, U: idx}}
		})
		add(fmt.Sprintf("set element string index %d", idx), func(t *c10Tok) {
			t.blocks[0].Facts[0].Terms[0] = wire.Term{Kind: wire.TSet, Set: []wire.Term{{Kind: wire.TString, U: idx}}}
		})
	}
	terms := map[string]wire.Term{
		"variable in a fact":     {Kind: wire.TVariable, U: 1024},
		"term without content":   {Kind: wire.TEmpty},
		"empty set":              {Kind: wire.TSet},
		"set of byte arrays":     {Kind: wire.TSet, Set: []wire.Term{{Kind: wire.TBytes, B: []byte{1}}, {Kind: wire.TBytes, B: []byte{}}}},
		"set of sets":            {Kind: wire.TSet, Set: []wire.Term{{Kind: wire.TSet, Set: []wire.Term{{Kind: wire.TInteger, I: 1}}}}},
		"set with a variable":    {Kind: wire.TSet, Set: []wire.Term{{Kind: wire.TVariable, U: 1024}}},
		"mixed set":              {Kind: wire.TSet, Set: []wire.Term{{Kind: wire.TInteger, I: 1}, {Kind: wire.TBytes, B: []byte{1}}}},
		"set with an empty term": {Kind: wire.TSet, Set: []wire.Term{{Kind: wire.TEmpty}}},
		"set of dates":           {Kind: wire.TSet, Set: []wire.Term{{Kind: wire.TDate, U: 1 << 63}}},
		"set of bools":           {Kind: wire.TSet, Set: []wire.Term{{Kind: wire.TBool, Bo: true}, {Kind: wire.TBool, Bo: true}}},
		"date 2^64-1":            {Kind: wire.TDate, U: 1<<64 - 1},
		"integer min":            {Kind: wire.TInteger, I: -1 << 63},
		"1 MiB byte array":       {Kind: wire.TBytes, B: make([]byte, 1<<20)},
		"set of 2000 integers":   {Kind: wire.TSet, Set: manyInts(2000)},
	}
	var tnames []string
	for n := range terms {
		tnames = append(tnames, n)
	}
	sortStrings(tnames)
	for _, n := range tnames {
		n, tm := n, terms[n]
		add("fact term: "+n, func(t *c10Tok) { t.blocks[0].Facts[0].Terms[0] = tm })
		add("block-1 fact term: "+n, func(t *c10Tok) { t.blocks[1].Facts[0].Terms[0] = tm })
		add("rule head term: "+n, func(t *c10Tok) { t.blocks[0].Rules[0].Head.Terms[0] = tm })
		add("rule body term: "+n, func(t *c10Tok) { t.blocks[0].Rules[0].Body[0].Terms[0] = tm })
		add("check query term: "+n, func(t *c10Tok) { t.blocks[0].Checks[0].Queries[0].Body[0].Terms[0] = tm })
		add("expression operand: "+n, func(t *c10Tok) { t.blocks[0].Rules[0].Exprs[0][1] = wire.Op{Kind: wire.OValue, Term: tm} })
	}
	// rule shapes
	add("head variable absent from the body", func(t *c10Tok) { t.blocks[0].Rules[0].Head.Terms[0] = wire.Term{Kind: wire.TVariable, U: 1030} })
	add("rule with an empty body", func(t *c10Tok) { t.blocks[0].Rules[0].Body = nil; t.blocks[0].Rules[0].Exprs = nil })
	add("rule without head", func(t *c10Tok) { t.blocks[0].Rules[0].HasHead = false })
	add("predicate without name", func(t *c10Tok) { t.blocks[0].Facts[0].HasName = false })
	add("check without queries", func(t *c10Tok) { t.blocks[0].Checks[0].Queries = nil })
	add("query without body", func(t *c10Tok) { t.blocks[0].Checks[0].Queries[0].Body = nil })
	add("arity mismatch: fact longer than query", func(t *c10Tok) {
		t.blocks[0].Facts[1].Terms = append(t.blocks[0].Facts[1].Terms, wire.Term{Kind: wire.TInteger, I: 1}, wire.Term{Kind: wire.TInteger, I: 2})
	})
	add("arity mismatch: query longer than fact", func(t *c10Tok) {
		q0 := &t.blocks[0].Checks[0].Queries[0].Body[0]
		q0.Terms = append(q0.Terms, wire.Term{Kind: wire.TVariable, U: 1031}, wire.Term{Kind: wire.TVariable, U: 1032})
	})
	add("zero-arity fact and query", func(t *c10Tok) {
		t.blocks[0].Facts[1].Terms = nil
		t.blocks[0].Checks[0].Queries[0].Body[0].Terms = nil
	})
	add("recursive rule", func(t *c10Tok) {
		t.blocks[1].Rules[0] = wire.Rule{HasHead: true, Head: wire.Pred{HasName: true, Name: t.blocks[0].Facts[1].Name, Terms: []wire.Term{{Kind: wire.TVariable, U: 1024}}}, Body: []wire.Pred{{HasName: true, Name: t.blocks[0].Facts[1].Name, Terms: []wire.Term{{Kind: wire.TVariable, U: 1024}}}}}
	})
	add("500 facts", func(t *c10Tok) {
		for i := 0; i < 500; i++ {
			t.blocks[1].Facts = append(t.blocks[1].Facts, wire.Pred{HasName: true, Name: t.blocks[0].Facts[1].Name, Terms: []wire.Term{{Kind: wire.TInteger, I: int64(i)}}})
		}
	})
	// expressions: every operator sequence up to the given length, in a rule and in a check
	alphabet := []wire.Op{
		{Kind: wire.OValue, Term: wire.Term{Kind: wire.TInteger, I: 1}},
		{Kind: wire.OValue, Term: wire.Term{Kind: wire.TVariable, U: 1024}},
		{Kind: wire.OValue, Term: wire.Term{Kind: wire.TVariable, U: 1099}},
		{Kind: wire.OValue, Term: wire.Term{Kind: wire.TSet, Set: []wire.Term{{Kind: wire.TBytes, B: []byte{1}}}}},
		{Kind: wire.OValue, Term: wire.Term{Kind: wire.TString, U: 1 << 40}},
		{Kind: wire.OEmpty},
		{Kind: wire.OUnary}, {Kind: wire.OBinary},
		{Kind: wire.OUnary, HasCode: true, Code: 3}, {Kind: wire.OBinary, HasCode: true, Code: 17}, {Kind: wire.OBinary, HasCode: true, Code: 1 << 31},
	}
	for u := uint64(0); u < 3; u++ {
		alphabet = append(alphabet, wire.Op{Kind: wire.OUnary, HasCode: true, Code: u})
	}
	for b := uint64(0); b < 17; b++ {
		alphabet = append(alphabet, wire.Op{Kind: wire.OBinary, HasCode: true, Code: b})
	}
	var seqs [][]wire.Op
	seqs = append(seqs, []wire.Op{})
	prev := [][]wire.Op{{}}
	for l := 1; l <= exprLen; l++ {
		var cur [][]wire.Op
		for _, p := range prev {
			for _, o := range alphabet {
				cur = append(cur, append(append([]wire.Op{}, p...), o))
			}
		}
		seqs = append(seqs, cur...)
		prev = cur
	}
	for si, sq := range seqs {
		sq := sq
		where := si % 3
		add(fmt.Sprintf("expression ops %s", opsName(sq)), func(t *c10Tok) {
			switch where {
			case 0:
				t.blocks[0].Rules[0].Exprs = [][]wire.Op{sq}
			case 1:
				t.blocks[0].Checks[0].Queries[1].Exprs = [][]wire.Op{sq}
			case 2:
				t.blocks[1].Rules[0].Exprs = [][]wire.Op{sq}
			}
		})
	}
	// values that cannot be written in a token but arise during evaluation: the empty set (an
	// intersection of disjoint sets) and what the other operators do with it
	iv := func(n int64) wire.Op { return wire.Op{Kind: wire.OValue, Term: wire.Term{Kind: wire.TInteger, I: n}} }
	setOf := func(ns ...int64) wire.Op {
		t := wire.Term{Kind: wire.TSet}
		for _, n := range ns {
			t.Set = append(t.Set, wire.Term{Kind: wire.TInteger, I: n})
		}
		return wire.Op{Kind: wire.OValue, Term: t}
	}
	bin := func(code uint64) wire.Op { return wire.Op{Kind: wire.OBinary, HasCode: true, Code: code} }
	un := func(code uint64) wire.Op { return wire.Op{Kind: wire.OUnary, HasCode: true, Code: code} }
	empty := []wire.Op{setOf(1, 2), setOf(3), bin(15)} // [1,2].intersection([3])
	for k, tail := range [][]wire.Op{
		{iv(1), bin(5)},                        // .contains(1)
		{setOf(1), bin(5)},                     // .contains([1])
		{un(2), iv(0), bin(4)},                 // .length() == 0
		{setOf(1), bin(16), un(2)},             // .union([1]).length()
		{setOf(1), bin(15)},                    // .intersection([1])
		{setOf(3), setOf(4), bin(15), bin(4)},  // == another computed empty set
		{setOf(3), setOf(4), bin(15), bin(5)},  // .contains(computed empty set)
		{setOf(3), setOf(4), bin(15), bin(16)}, // .union(computed empty set)
		{un(1)}, {un(0)}, {iv(1), bin(0)}, {iv(1), bin(9)},
	} {
		seq := append(append([]wire.Op{}, empty...), tail...)
		k := k
		add(fmt.Sprintf("expression over a computed empty set #%d %s", k, opsName(seq)), func(t *c10Tok) {
			if k%2 == 0 {
				t.blocks[0].Rules[0].Exprs = [][]wire.Op{seq}
			} else {
				t.blocks[0].Checks[0].Queries[0].Exprs = [][]wire.Op{seq}
			}
		})
		// and with the empty set as the right operand
		rev := append(append([]wire.Op{setOf(1, 2)}, empty...), bin(5))
		if k == 0 {
			add("expression: set.contains(computed empty set)", func(t *c10Tok) { t.blocks[0].Checks[0].Queries[0].Exprs = [][]wire.Op{rev} })
		}
	}
	// regular expressions: an ill-formed pattern (and a well-formed one) evaluated for several
	// facts, in several checks and - through the operation panel - in several evaluations
	for _, pat := range []string{"([", "a.c", "\\", "(?P<n>a)(?P<n>b)", "a{2000}{2000}"} {
		pat := pat
		add(fmt.Sprintf("matches(%q) in the last block's check and in a rule", pat), func(t *c10Tok) {
			n := 0
			for _, b := range t.blocks {
				n += len(b.Symbols)
			}
			t.blocks[2].Symbols = append(t.blocks[2].Symbols, pat)
			sv := wire.Op{Kind: wire.OValue, Term: wire.Term{Kind: wire.TString, U: uint64(1024 + n)}}
			ex := []wire.Op{sv, sv, {Kind: wire.OBinary, HasCode: true, Code: 8}}
			t.blocks[2].Checks[0].Queries[1].Exprs = [][]wire.Op{ex}
			t.blocks[2].Checks = append(t.blocks[2].Checks, wire.Check{Queries: []wire.Rule{t.blocks[2].Checks[0].Queries[1]}})
		})
	}
	add("1001 pushes in an expression", func(t *c10Tok) {
		var ops []wire.Op
		for i := 0; i < 1001; i++ {
			ops = append(ops, wire.Op{Kind: wire.OValue, Term: wire.Term{Kind: wire.TInteger, I: 1}})
		}
		t.blocks[0].Rules[0].Exprs = [][]wire.Op{ops}
	})
	// versions, symbols, context
	for _, v := range []*uint32{nil, u32(0), u32(2), u32(4), u32(4294967295)} {
		v := v
		add("authority version "+idStr(v), func(t *c10Tok) { t.blocks[0].Version = v })
		add("block 2 version "+idStr(v), func(t *c10Tok) { t.blocks[2].Version = v })
	}
	add("duplicate symbols", func(t *c10Tok) { t.blocks[1].Symbols = append(t.blocks[1].Symbols, t.blocks[0].Symbols...) })
	add("default-named and empty symbols", func(t *c10Tok) { t.blocks[0].Symbols = append(t.blocks[0].Symbols, "read", "", "query") })
	add("10000 symbols", func(t *c10Tok) {
		for i := 0; i < 10000; i++ {
			t.blocks[0].Symbols = append(t.blocks[0].Symbols, fmt.Sprintf("s%d", i))
		}
	})
	add("no symbols at all", func(t *c10Tok) {
		for _, b := range t.blocks {
			b.Symbols = nil
		}
	})
	add("invalid UTF-8 symbol", func(t *c10Tok) { t.blocks[0].Symbols[0] = "\xff\xfe\x80" })
	add("invalid UTF-8 context", func(t *c10Tok) { s := "\xc3\x28"; t.blocks[2].Context = &s })
	add("no context, no version in block 1", func(t *c10Tok) { t.blocks[1].Context = nil; t.blocks[1].Version = nil })
	for n := 1; n <= 2; n++ {
		n := n
		add(fmt.Sprintf("%d block(s) only", n), func(t *c10Tok) { t.n = n })
	}
	// envelope: proof, keys, signatures, algorithm, key id
	for _, l := range []int{0, 1, 3, 31, 33, 64} {
		l := l
		add(fmt.Sprintf("proof secret of %d bytes", l), func(t *c10Tok) {
			t.post = append(t.post, func(e *wire.Envelope) { e.Proof = wire.Proof{Present: true, Secret: make([]byte, l)} })
		})
	}
	for _, l := range []int{0, 63, 65} {
		l := l
		add(fmt.Sprintf("final signature of %d bytes", l), func(t *c10Tok) {
			t.post = append(t.post, func(e *wire.Envelope) { e.Proof = wire.Proof{Present: true, Final: make([]byte, l)} })
		})
	}
	add("proof without content", func(t *c10Tok) {
		t.post = append(t.post, func(e *wire.Envelope) { e.Proof = wire.Proof{Present: true} })
	})
	add("no proof", func(t *c10Tok) { t.post = append(t.post, func(e *wire.Envelope) { e.Proof = wire.Proof{} }) })
	add("sealed by the attacker", func(t *c10Tok) {
		t.post = append(t.post, func(e *wire.Envelope) {
			if len(e.Proof.Secret) != ed25519.SeedSize {
				return // another deviation already replaced the proof
			}
			k := ed25519.NewKeyFromSeed(e.Proof.Secret)
			last := e.Authority
			if len(e.Blocks) > 0 {
				last = e.Blocks[len(e.Blocks)-1]
			}
			e.Proof = wire.Proof{Present: true, Final: ed25519.Sign(k, wire.SealPayload(last))}
		})
	})
	for _, l := range []int{0, 31, 33} {
		l := l
		add(fmt.Sprintf("authority next key of %d bytes", l), func(t *c10Tok) {
			t.post = append(t.post, func(e *wire.Envelope) { e.Authority.Key = make([]byte, l) })
		})
		add(fmt.Sprintf("last block next key of %d bytes", l), func(t *c10Tok) {
			t.post = append(t.post, func(e *wire.Envelope) {
				if len(e.Blocks) > 0 {
					e.Blocks[len(e.Blocks)-1].Key = make([]byte, l)
				}
			})
		})
	}
	// the same key lengths announced by a block whose own signature is valid (the holder of an
	// unsealed token can produce these): the proof is then checked against a key of that length
	for _, l := range []int{0, 31, 33} {
		for _, sealed := range []bool{false, true} {
			l, sealed := l, sealed
			add(fmt.Sprintf("last block validly signed, announcing a next key of %d bytes, sealed=%v", l, sealed), func(t *c10Tok) {
				t.post = append(t.post, func(e *wire.Envelope) {
					_, prev := attackerKey()
					last := &e.Authority
					if n := len(e.Blocks); n > 0 {
						last = &e.Blocks[n-1]
						_, prev = wire.SeedKey(9500 + n - 1)
					}
					last.Key = make([]byte, l)
					last.Sig = ed25519.Sign(prev, wire.BlockPayload(*last))
					if sealed {
						e.Proof = wire.Proof{Present: true, Final: make([]byte, 64)}
					} else {
						e.Proof = wire.Proof{Present: true, Secret: make([]byte, 32)}
					}
				})
			})
		}
	}
	for _, l := range []int{0, 63, 65} {
		l := l
		add(fmt.Sprintf("authority signature of %d bytes", l), func(t *c10Tok) {
			t.post = append(t.post, func(e *wire.Envelope) { e.Authority.Sig = make([]byte, l) })
		})
	}
	add("authority without next key", func(t *c10Tok) { t.post = append(t.post, func(e *wire.Envelope) { e.Authority.HasKey = false }) })
	add("block without next key", func(t *c10Tok) {
		t.post = append(t.post, func(e *wire.Envelope) {
			if len(e.Blocks) > 0 {
				e.Blocks[0].HasKey = false
			}
		})
	})
	add("authority without algorithm", func(t *c10Tok) { t.post = append(t.post, func(e *wire.Envelope) { e.Authority.Alg = nil }) })
	add("block algorithm 1", func(t *c10Tok) {
		t.post = append(t.post, func(e *wire.Envelope) {
			if len(e.Blocks) > 0 {
				v := uint64(1)
				e.Blocks[0].Alg = &v
			}
		})
	})
	add("algorithm 2^31", func(t *c10Tok) {
		t.post = append(t.post, func(e *wire.Envelope) { v := uint64(1 << 31); e.Authority.Alg = &v })
	})
	add("no authority", func(t *c10Tok) { t.post = append(t.post, func(e *wire.Envelope) { e.HasAuth = false }) })
	add("authority without signature", func(t *c10Tok) { t.post = append(t.post, func(e *wire.Envelope) { e.Authority.Sig = nil }) })
	add("authority block bytes are garbage", func(t *c10Tok) {
		t.post = append(t.post, func(e *wire.Envelope) { e.Authority.Block = []byte{0xff, 0xff, 0xff, 0x01} })
	})
	add("root key id 2^32-1", func(t *c10Tok) {
		t.post = append(t.post, func(e *wire.Envelope) { v := uint32(4294967295); e.RootKeyID = &v })
	})
	return out
}

func manyInts(n int) []wire.Term {
	out := make([]wire.Term, n)
	for i := range out {
		out[i] = wire.Term{Kind: wire.TInteger, I: int64(i)}
	}
	return out
}

func opsName(ops []wire.Op) string {
	var s []string
	for _, o := range ops {
		switch o.Kind {
		case wire.OValue:
			s = append(s, "value("+o.Term.Kind.String()+")")
		case wire.OUnary:
			s = append(s, fmt.Sprintf("unary(%v,%d)", o.HasCode, o.Code))
		case wire.OBinary:
			s = append(s, fmt.Sprintf("binary(%v,%d)", o.HasCode, o.Code))
		default:
			s = append(s, "empty-op")
		}
	}
	return "[" + strings.Join(s, " ") + "]"
}

func init() {
	register(&sup.Check{
		ID:           "C10",
		Level:        "exploration",
		Technique:    "bounded-exhaustive enumeration of byte-level neighbourhoods of library-made tokens and of the <=2-deviation structural neighbourhood of an attacker-signed token (independent protobuf encoder), each input driven through the whole API panel on the unmodified library in a supervised child process",
		Rule:         "layer 1: every proper prefix, single-byte deletion, single-bit flip and byte replaced by 00/7f/80/ff of 6 library-made tokens covering every feature. layer 2: a benign 3-block token encoded with the independent encoder and validly signed under an attacker root so that evaluation is reached; every single deviation of ~700 (quick) / ~24000 (thorough: every operator sequence up to length 3) - symbol indexes 27..2^64-1 in every position, every adversarial term (variable in a fact, empty/nested/mixed sets, sets of byte arrays, terms without content, huge values) in every position, malformed rules (unbound head variable, empty body, missing head/name), every operator sequence up to length 2/3 over a 31-symbol alphabet incl. operators without kind and unknown codes, versions, symbol tables, invalid UTF-8, proof/key/signature lengths, missing fields - and every PAIR of the ~250 non-expression deviations. Panel per input: Unmarshal, String, Code, Checks, GetContext, BlockCount, RevocationIds, RootKeyID, Serialize, GetBlockID, AuthorizerFor under the signing key and another key, Query/Authorize/PrintWorld/SerializePolicies/Reset with 5 authorizer contents (rules that bind, compare, unite and intersect whatever the token carries), NewVerifier+Authorize, CreateBlock+Append, Seal. Oracle: every call returns; the process survives. Non-trivial = every input; distinct by construction.",
		Assume:       []string{"'all byte strings' is infinite: what is covered is the complete 1-edit byte neighbourhood and the complete 2-deviation structural neighbourhood stated above", "evaluation limits: 1 h duration (never reached), default fact and iteration limits"},
		Procs:        func(string) int { return 16 },
		SingleThread: true,
		Spaces: func(c *sup.Ctx) []*sup.Space {
			apub, _ := attackerKey()
			other, _ := hx.Keys(1)
			roots := []ed25519.PublicKey{apub, other}
			bases, berr := c10BaseTokens()
			libRoots := []ed25519.PublicKey{other, apub}
			// layer 1 index: (token, position, kind) kinds: 0..7 bit flips, 8 prefix, 9 deletion, 10..13 replacements
			maxLen := 0
			for _, b := range bases {
				if len(b) > maxLen {
					maxLen = len(b)
				}
			}
			layer1 := &sup.Space{Name: "layer1-byte-neighbourhood", Size: func(*sup.Ctx) int64 { return int64(len(bases)) * int64(maxLen) * 14 }, Run: func(i int64, w *sup.W) {
				if berr != nil {
					if i == 0 {
						w.Violate("C10:base-token-construction-failed", "library-made tokens", berr.Error(), "tokens")
					}
					return
				}
				kind := int(i % 14)
				i /= 14
				pos := int(i % int64(maxLen))
				tk := int(i / int64(maxLen))
				base := bases[tk]
				if pos >= len(base) {
					return
				}
				var data []byte
				var what string
				switch {
				case kind < 8:
					data = append([]byte{}, base...)
					data[pos] ^= 1 << uint(kind)
					what = fmt.Sprintf("bit %d of byte %d flipped", kind, pos)
				case kind == 8:
					data = append([]byte{}, base[:pos]...)
					what = fmt.Sprintf("prefix of %d bytes", pos)
				case kind == 9:
					data = append(append([]byte{}, base[:pos]...), base[pos+1:]...)
					what = fmt.Sprintf("byte %d deleted", pos)
				default:
					data = append([]byte{}, base...)
					data[pos] = []byte{0x00, 0x7f, 0x80, 0xff}[kind-10]
					what = fmt.Sprintf("byte %d replaced by %02x", pos, data[pos])
				}
				c10Run(w, fmt.Sprintf("library-made token %d (%d bytes): %s", tk, len(base), what), data, libRoots)
			}}
			devs := c10Deviations(sup.Pick(c, 2, 3))
			var plain []int // deviations that take part in pairs: everything but the operator sequences
			for i, d := range devs {
				if !strings.HasPrefix(d.name, "expression ops ") && !strings.HasPrefix(d.name, "expression over a computed") {
					plain = append(plain, i)
				}
			}
			single := &sup.Space{Name: "layer2-single-deviations", Size: func(*sup.Ctx) int64 { return int64(len(devs)) + 1 }, Run: func(i int64, w *sup.W) {
				t := c10Benign()
				name := "benign token (no deviation)"
				if i > 0 {
					d := devs[i-1]
					name = d.name
					if r, _ := sup.Catch(func() { d.apply(t) }); r != nil {
						w.Class("deviation-not-applicable")
						return
					}
				}
				c10Run(w, "attacker-signed 3-block token with: "+name, c10Sign(t), roots)
			}}
			np := int64(len(plain))
			pairs := &sup.Space{Name: "layer2-pairs-of-deviations", Size: func(*sup.Ctx) int64 { return np * (np - 1) / 2 }, Run: func(i int64, w *sup.W) {
				// unrank the pair (a < b)
				a := int64(0)
				for i >= np-1-a {
					i -= np - 1 - a
					a++
				}
				b := a + 1 + i
				d1, d2 := devs[plain[a]], devs[plain[b]]
				t := c10Benign()
				if r, _ := sup.Catch(func() { d1.apply(t); d2.apply(t) }); r != nil {
					w.Class("deviation-not-applicable")
					return
				}
				c10Run(w, "attacker-signed 3-block token with: "+d1.name+" AND "+d2.name, c10Sign(t), roots)
			}}
			return []*sup.Space{single, layer1, pairs}
		},
	})
}
