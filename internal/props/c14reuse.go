package props

import (
	"fmt"

	biscuit "github.com/biscuit-auth/biscuit-go/v2"
	"github.com/biscuit-auth/biscuit-go/v2/parser"

	"verif/internal/gram"
	rx "verif/internal/refexpr"
	"verif/internal/sup"
)

// One parser.Parser value parsing the same parameterised text several times
// with different bindings (and then without any): every result must be what a
// parser of its own returns for that text and those bindings. Bindings include
// a value of another type and a builder-level variable (which a set must refuse).
func c14ReuseSpace() *sup.Space {
	var texts []c14Text
	for _, t := range c14Frames() {
		if len(t.params) > 0 {
			texts = append(texts, t)
		}
	}
	for _, t := range c14ExprFrames("param-in-expression", gram.Minimal(gram.Bin(rx.Equal, gram.Lf(gram.LVarX), gram.Lf(gram.LParam)))) {
		texts = append(texts, t)
	}
	for _, t := range c14ExprFrames("param-in-set", gram.Minimal(gram.Bin(rx.Contains, gram.Lf(gram.Leaf{Toks: []string{"[", "1", ",", "{p}", "]"}, Val: rx.SetOf(rx.Int(1), rx.Int(42)), Param: "p"}), gram.Lf(gram.LVarX)))) {
		texts = append(texts, t)
	}
	bindings := []struct {
		name string
		term biscuit.Term
	}{
		{"42", biscuit.Integer(42)}, {"7", biscuit.Integer(7)}, {`"other"`, biscuit.String("other")}, {"a variable", biscuit.Variable("v")}, {"unbound", nil},
	}
	nb := int64(len(bindings))
	render := func(x c14Parsed, err error) string {
		if err != nil {
			return "error"
		}
		s, rerr := c14Render(x)
		if rerr != nil {
			return "malformed: " + rerr.Error()
		}
		return s
	}
	pm := func(k int) parser.ParametersMap {
		if bindings[k].term == nil {
			return nil
		}
		return parser.ParametersMap{"p": bindings[k].term}
	}
	return &sup.Space{Name: "one-parser-several-bindings", Size: func(*sup.Ctx) int64 { return int64(len(texts)) * nb * nb }, Run: func(i int64, w *sup.W) {
		first, second := int(i%nb), int(i/nb%nb)
		t := texts[i/nb/nb]
		text := gram.Join(t.toks, 0)
		human := fmt.Sprintf("%s %q parsed by one parser with {p} bound to %s, then to %s", t.kind, text, bindings[first].name, bindings[second].name)
		var got, want string
		if r, stack := sup.Catch(func() {
			p := parser.New()
			c14ParseText(p, t.kind, text, pm(first))
			got = render(c14ParseText(p, t.kind, text, pm(second)))
			want = render(c14ParseText(parser.New(), t.kind, text, pm(second)))
		}); r != nil {
			w.Class("panic")
			w.Violate("C14:panic-in-parser:"+sup.PanicSig(stack), human, fmt.Sprint(r), "a result or an error")
			return
		}
		if t.label == "param-in-set" && bindings[second].name == "a variable" && want != "error" {
			w.Class("variable-in-set-accepted")
			w.Violate("C14:missing-error:variable-in-a-set-through-a-parameter", human, want, "an error")
			return
		}
		if got != want {
			w.Class("reused-parser-differs")
			w.Violate("C14:reused-parser-returns-another-result:"+t.kind, human, got, "a fresh parser: "+want)
			return
		}
		cls := "same-as-fresh-parser"
		if want == "error" {
			cls = "error-as-fresh-parser"
		}
		w.Class(cls)
		if first != second {
			w.NontrivialByIndex()
		}
		if w.WantSample(cls) {
			w.Sample(cls, map[string]string{"case": human, "result": got})
		}
	}}
}
