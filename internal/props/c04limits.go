package props

import (
	"fmt"
	"time"

	biscuit "github.com/biscuit-auth/biscuit-go/v2"
	"github.com/biscuit-auth/biscuit-go/v2/datalog"

	"verif/internal/hx"
	"verif/internal/refdl"
	rx "verif/internal/refexpr"
	"verif/internal/sup"
)

// C04-S5: the run-limit class of the verdict. The fact limit is compared with
// the size of the authority-level closure and of each block's closure as the
// reference computes them; exactly at the limit both outcomes are allowed.
func c04S5() *sup.Space {
	p := func(n int64) refdl.Atom { return atom("p", rx.Int(n)) }
	ruleSets := [][]refdl.Rule{nil, {rule(atom("q", vx), atom("p", vx))}, {rule(atom("q", vx), atom("p", vx)), rule(atom("r", vx, vx), atom("q", vx))}}
	const maxMF = 9
	// dims: authority facts 0..3, authorizer facts 0..2, block facts 0..2, rules (3) in authority / block, maxFacts 1..9
	size := int64(4 * 3 * 3 * 3 * 2 * maxMF)
	return &sup.Space{Name: "S5-fact-limit-class", Size: func(*sup.Ctx) int64 { return size }, Run: func(i int64, w *sup.W) {
		mf := int(i%maxMF) + 1
		i /= maxMF
		ruleInBlock := i%2 == 1
		i /= 2
		rs := ruleSets[i%3]
		i /= 3
		nb := int(i % 3)
		i /= 3
		nz := int(i % 3)
		na := int(i / 3)
		s := refdl.Scenario{Policies: []refdl.Policy{allow(qTrue)}, Blocks: []refdl.Block{{}}}
		for k := 0; k < na; k++ {
			s.Authority.Facts = append(s.Authority.Facts, p(int64(k)))
		}
		for k := 0; k < nz; k++ {
			s.Auth.Facts = append(s.Auth.Facts, p(int64(10+k)))
		}
		for k := 0; k < nb; k++ {
			s.Blocks[0].Facts = append(s.Blocks[0].Facts, p(int64(20+k)))
		}
		if ruleInBlock {
			s.Blocks[0].Rules = rs
		} else {
			s.Authority.Rules = rs
		}
		human := fmt.Sprintf("%s with WithMaxFacts(%d)", s.String(), mf)
		tok, err := cachedToken(w, s.Authority, s.Blocks)
		if err != nil {
			w.Violate("S5:token-build-failed", human, err.Error(), "a token")
			return
		}
		a, _ := hx.Authorizer(tok, s.Auth, s.Policies, biscuit.WithWorldOptions(datalog.WithMaxDuration(time.Hour), datalog.WithMaxFacts(mf)))
		got := hx.Classify(a.Authorize())
		ref := refdl.Decide(s)
		n0, n1 := len(ref.AuthClosure), 0
		if len(ref.BlockClosure) > 0 {
			n1 = len(ref.BlockClosure[0])
		}
		allowed := map[string]bool{}
		switch {
		case n0 > mf || n1 > mf:
			allowed[hx.Limit] = true
		default:
			allowed[hx.RefClass(ref)] = true
			if n0 == mf || n1 == mf {
				allowed[hx.Limit] = true
			}
		}
		if !allowed[got] {
			w.Class("wrong-limit-class")
			w.Violate(fmt.Sprintf("S5:limit-class:%s", got), human, got, fmt.Sprintf("%v (reference: %d facts at authority level, %d in the block's scope)", allowed, n0, n1))
			return
		}
		w.Class(got)
		w.NontrivialByIndex()
		if w.WantSample(got) {
			w.Sample(got, map[string]string{"scenario": human, "verdict": got})
		}
	}}
}
