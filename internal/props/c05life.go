package props

import (
	"fmt"
	"strings"
	"time"

	"github.com/biscuit-auth/biscuit-go/v2/datalog"

	"verif/internal/alpha"
	"verif/internal/dlx"
	"verif/internal/refdl"
	rx "verif/internal/refexpr"
	"verif/internal/sup"
)

// The life of one World (what the authorizer does with it, and a little more):
// two facts, then every operation sequence of length 5 (quick) / 7 (thorough) over
// {AddRule r1..r3 (rules with different variable names
// and arities), Run, ResetRules, continue on a Clone, QueryRule q1, QueryRule
// q2}. Model: a set of facts and a list of rules; Run replaces the facts by
// their least model; QueryRule answers from the current facts. After every
// Run the world's facts must equal the model's, and every query result - also
// the ones obtained earlier in the history and still held - must equal what
// the model answered when it was asked.
func prevOp(hist []string) string {
	if len(hist) >= 2 {
		return hist[len(hist)-2]
	}
	return "start"
}

func c05LifeSpace(c *sup.Ctx) *sup.Space {
	X, Y := alpha.X, alpha.Y
	U, V := rx.Var("u"), rx.Var("v")
	p := func(n int64) refdl.Atom { return refdl.A("p", rx.Int(n)) }
	factOps := []refdl.Atom{p(1), refdl.A("e", rx.Int(1), rx.Int(2))}
	ruleOps := []refdl.Rule{
		{Head: refdl.A("q", X), Body: []refdl.Atom{refdl.A("p", X)}},
		{Head: refdl.A("r", U, V), Body: []refdl.Atom{refdl.A("e", U, V), refdl.A("p", U)}},
		{Head: refdl.A("p", Y), Body: []refdl.Atom{refdl.A("e", X, Y), refdl.A("q", X)}},
	}
	queries := []refdl.Rule{
		{Head: refdl.A("out", X), Body: []refdl.Atom{refdl.A("p", X)}},
		{Head: refdl.A("out", X, Y), Body: []refdl.Atom{refdl.A("e", X, Y)}},
	}
	names := []string{"AddFact(p(1))", "AddFact(e(1,2))", "AddRule(q($x) <- p($x))", "AddRule(r($u,$v) <- e($u,$v), p($u))", "AddRule(p($y) <- e($x,$y), q($x))", "Run", "ResetRules", "continue on Clone()", "QueryRule(out($x) <- p($x))", "QueryRule(out($x,$y) <- e($x,$y))"}
	nops := int64(len(names) - 2)
	depth := sup.Pick(c, 5, 7)
	var size int64 = 1
	for i := 0; i < depth; i++ {
		size *= nops
	}
	return &sup.Space{Name: "life-of-a-world", Size: func(*sup.Ctx) int64 { return size }, Run: func(i int64, w *sup.W) {
		syms := dlx.NewSyms()
		world := datalog.NewWorld(datalog.WithMaxDuration(time.Hour), datalog.WithMaxFacts(100000), datalog.WithMaxIterations(100000))
		facts := refdl.Set{}
		var rules []refdl.Rule
		type held struct {
			got  *datalog.FactSet
			want refdl.Set
			at   int
		}
		var helds []held
		var hist []string
		ran := false
		// both facts first (they are the least interesting operations), then every sequence of the others
		script := []int{0, 1}
		for step := 0; step < depth; step++ {
			script = append(script, 2+int(i%nops))
			i /= nops
		}
		for step, op := range script {
			hist = append(hist, names[op])
			human := func() string { return strings.Join(hist, "; ") }
			switch {
			case op < 2:
				world.AddFact(syms.Fact(factOps[op]))
				facts.Add(factOps[op])
			case op < 5:
				world.AddRule(syms.Rule(ruleOps[op-2]))
				rules = append(rules, ruleOps[op-2])
			case op == 5:
				tab := syms.Tab
				err := world.Run(&tab)
				syms.Tab = tab
				ran = true
				want, _, _ := refdl.Fixpoint(facts, rules)
				facts = want
				if err != nil {
					w.Class("unexpected-error")
					w.Violate("life:unexpected-error", human(), err.Error(), "nil")
					return
				}
				gs, dups, berr := syms.BackSet(world.Facts())
				if berr != nil || dups > 0 || !gs.Equal(want) {
					w.Class("wrong-fixpoint")
					w.Violate("life:wrong-fixpoint-after-"+strings.SplitN(prevOp(hist), "(", 2)[0], human(), fmt.Sprintf("%s (%v, %d duplicates)", gs, berr, dups), want.String())
					return
				}
			case op == 6:
				world.ResetRules()
				rules = nil
			case op == 7:
				world = world.Clone()
			default:
				q := queries[op-8]
				dq := syms.Rule(q) // interns the head's name: before the table is handed over
				tab := syms.Tab
				got := world.QueryRule(dq, &tab)
				syms.Tab = tab
				want, _ := refdl.Apply(q, facts)
				helds = append(helds, held{got, want, step})
			}
			// every result obtained so far is still what it was
			for _, h := range helds {
				gs, _, berr := syms.BackSet(h.got)
				if berr != nil || !gs.Equal(h.want) {
					w.Class("query-result-changed")
					sig := "life:wrong-query-result"
					if h.at != step {
						sig = "life:held-query-result-changed-by-" + strings.SplitN(names[op], "(", 2)[0]
					}
					w.Violate(sig, fmt.Sprintf("%s; result of step %d", human(), h.at+1), fmt.Sprintf("%s (%v)", gs, berr), h.want.String())
					return
				}
			}
		}
		if ran {
			w.Class("model-agrees-after-run")
			w.NontrivialByIndex()
		} else {
			w.Class("model-agrees")
		}
		if w.WantSample("life") {
			w.Sample("life", map[string]string{"history": strings.Join(hist, "; ")})
		}
	}}
}
