package props

import (
	"fmt"

	biscuit "github.com/biscuit-auth/biscuit-go/v2"

	"verif/internal/hx"
	"verif/internal/refdl"
	rx "verif/internal/refexpr"
	"verif/internal/sup"
	"verif/internal/wire"
)

// forked derivations: "every token produced by building, attenuating and
// sealing through the library is accepted under the matching root key" must
// also hold when one parent is attenuated or sealed several times. Parents
// with 0..8 appended blocks cover every slice-capacity shape of the
// implementation's block lists (spare capacity appears at 3, 5, 6, 7).
func c01ForkSpace() *sup.Space {
	name := "forked-derivations"
	return &sup.Space{Name: name, Size: func(*sup.Ctx) int64 { return 9 * 2 }, Run: func(i int64, w *sup.W) {
		n := int(i / 2)
		reload := i%2 == 1
		pub, priv := hx.Keys(1)
		b := biscuit.NewBuilder(priv, biscuit.WithRNG(hx.NewRNG(77)))
		hx.FillBuilder(b, poolP)
		parent, err := b.Build()
		if err != nil {
			w.Violate("C01:fork:build-failed", "Build", err.Error(), "a token")
			return
		}
		mk := func(t *biscuit.Biscuit, tag string, seed uint64) (*biscuit.Biscuit, error) {
			bb := t.CreateBlock()
			hx.FillBlock(bb, refdl.Block{Facts: []refdl.Atom{atom("tag", rx.Str(tag))}})
			return t.Append(hx.NewRNG(seed), bb.Build())
		}
		for k := 0; k < n; k++ {
			parent, err = mk(parent, fmt.Sprintf("chain%d", k), uint64(300+k))
			if err != nil {
				w.Violate("C01:fork:append-failed", fmt.Sprintf("append %d", k), err.Error(), "a token")
				return
			}
		}
		if reload {
			ser, _ := parent.Serialize()
			parent, err = biscuit.Unmarshal(ser)
			if err != nil {
				w.Violate("C01:fork:reload-failed", "Unmarshal", err.Error(), "a token")
				return
			}
		}
		family := map[string]*biscuit.Biscuit{"parent": parent}
		order := []string{"parent"}
		add := func(name string, t *biscuit.Biscuit, err error) bool {
			if err != nil || t == nil {
				w.Violate("C01:fork:derivation-failed", fmt.Sprintf("parent with %d appended blocks (reloaded=%v): %s", n, reload, name), fmt.Sprint(err), "a token")
				return false
			}
			family[name] = t
			order = append(order, name)
			return true
		}
		a, err := mk(parent, "childA", 901)
		if !add("childA", a, err) {
			return
		}
		bb, err := mk(parent, "childB", 902)
		if !add("childB", bb, err) {
			return
		}
		sa, err := parent.Seal(hx.NewRNG(903))
		if !add("parent-sealed", sa, err) {
			return
		}
		ga, err := mk(a, "grandchildA1", 904)
		if !add("grandchildA1", ga, err) {
			return
		}
		gb, err := mk(a, "grandchildA2", 905)
		if !add("grandchildA2", gb, err) {
			return
		}
		sb, err := bb.Seal(hx.NewRNG(906))
		if !add("childB-sealed", sb, err) {
			return
		}
		for _, name := range order {
			t := family[name]
			ser, err := t.Serialize()
			human := fmt.Sprintf("parent with %d appended blocks (reloaded=%v), derivations childA, childB, parent-sealed, grandchildA1, grandchildA2, childB-sealed; checking %s", n, reload, name)
			if err != nil {
				w.Violate("C01:fork:serialize-failed", human, err.Error(), "bytes")
				return
			}
			w.Stats().States++
			w.Stats().Transitions++
			acc, why := libAccepts(ser, pub)
			env, derr := wire.DecodeEnvelope(ser)
			valid := false
			if derr == nil {
				valid, _ = wire.Valid(env, pub)
			}
			if !acc || !valid {
				w.Class("library-made-token-rejected")
				w.Violate("C01:fork:library-made-token-rejected:"+name, human, fmt.Sprintf("library accepts=%v (%s), reference valid=%v", acc, why, valid), "accepted under the matching root key")
				return
			}
			if accw, _ := libAccepts(ser, rootPub(2)); accw {
				w.Violate("C01:fork:accepted-under-wrong-root", human, "accepted under root 2", "rejected")
				return
			}
			w.Class("accepted")
		}
		w.NontrivialByIndex()
		if w.WantSample("fork") {
			w.Sample("fork", map[string]string{"parent_appended_blocks": fmt.Sprint(n), "reloaded": fmt.Sprint(reload), "family": fmt.Sprint(order)})
		}
	}}
}
