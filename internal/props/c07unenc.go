package props

import (
	"fmt"

	biscuit "github.com/biscuit-auth/biscuit-go/v2"

	"verif/internal/hx"
	"verif/internal/refdl"
	rx "verif/internal/refexpr"
	"verif/internal/sup"
)

// Terms the wire format cannot carry (a set of mixed types, a nested set, a set
// holding a variable, an empty set) at every position of a fact, a rule head,
// a rule body and a check, in the authority block and in an appended block.
// The builders may refuse them - at Add, at Build or at Append - but a token
// that IS returned must survive its own serialization: bytes the library
// itself refuses to load are not a faithful carrier of anything.
func c07UnencodableSpace() *sup.Space {
	bad := []rx.Val{rx.SetOf(rx.Int(1), rx.Str("a")), rx.SetOf(rx.SetOf(rx.Int(1))), rx.SetOf(rx.Var("v")), rx.SetOf(), rx.SetOf(rx.Str("a"), rx.Bytes([]byte{1}))}
	good := []rx.Val{rx.Int(1), rx.Str("fresh")}
	type shape struct {
		name string
		mk   func(ts []rx.Val) refdl.Block
	}
	shapes := []shape{
		{"fact", func(ts []rx.Val) refdl.Block { return refdl.Block{Facts: []refdl.Atom{atom("owner", ts...)}} }},
		{"rule head", func(ts []rx.Val) refdl.Block {
			return refdl.Block{Rules: []refdl.Rule{rule(atom("h", ts...), atom("p", vx))}}
		}},
		{"rule body", func(ts []rx.Val) refdl.Block {
			return refdl.Block{Rules: []refdl.Rule{rule(atom("h", vx), atom("p", vx), atom("b", ts...))}}
		}},
		{"check", func(ts []rx.Val) refdl.Block { return refdl.Block{Checks: []refdl.Check{chk(q(atom("c", ts...)))}} }},
		{"expression operand", func(ts []rx.Val) refdl.Block {
			return refdl.Block{Checks: []refdl.Check{chk(qe([]refdl.Atom{atom("p", vx)}, []rx.Op{{Kind: rx.OpValue, V: ts[0]}, {Kind: rx.OpValue, V: ts[1]}, {Kind: rx.OpBinary, B: rx.Equal}}))}}
		}},
	}
	// positions: bad term first, middle, last of three
	size := int64(len(bad) * len(shapes) * 3 * 2)
	return &sup.Space{Name: "terms-the-wire-cannot-carry", Size: func(*sup.Ctx) int64 { return size }, Run: func(i int64, w *sup.W) {
		inBlock := i%2 == 1
		i /= 2
		pos := int(i % 3)
		i /= 3
		sh := shapes[i%int64(len(shapes))]
		b := bad[i/int64(len(shapes))]
		ts := []rx.Val{good[0], good[1], good[0]}
		ts[pos] = b
		blk := sh.mk(ts)
		human := fmt.Sprintf("%s with the term %s at position %d, in %s", sh.name, b.Key(), pos, map[bool]string{false: "the authority block", true: "an appended block"}[inBlock])
		var tok *biscuit.Biscuit
		var err error
		if r, stack := sup.Catch(func() {
			if inBlock {
				tok, err = c07Build(c07Shared[0], []refdl.Block{blk}, nil, false, -1)
			} else {
				tok, err = c07Build(blk, nil, nil, false, -1)
			}
		}); r != nil {
			w.Class("panic")
			w.Violate("C07:panic-while-building:"+sup.PanicSig(stack), human, fmt.Sprint(r), "a token or an error")
			return
		}
		w.Stats().States++
		w.Stats().Transitions++
		if err != nil || tok == nil {
			w.Class("refused-by-the-builders")
			w.NontrivialByIndex()
			return
		}
		ser, err := tok.Serialize()
		if err != nil {
			w.Class("refused-at-serialization")
			w.NontrivialByIndex()
			return
		}
		re, err := biscuit.Unmarshal(ser)
		if err != nil {
			w.Class("bytes-not-loadable")
			w.Violate("C07:library-made-bytes-rejected-by-unmarshal", human, err.Error(), "a build error, or bytes that load")
			return
		}
		if re.String() != tok.String() {
			w.Class("reloaded-content-differs")
			w.Violate("C07:reloaded-token-prints-differently", human, re.String(), tok.String())
			return
		}
		_ = hx.LongLimits
		w.Class("carried")
		w.NontrivialByIndex()
	}}
}
