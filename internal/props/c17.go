package props

import (
	"bytes"
	"encoding/json"
	"fmt"
	"hash/fnv"
	"io"
	"strings"
	"sync"

	biscuit "github.com/biscuit-auth/biscuit-go/v2"
	"github.com/biscuit-auth/biscuit-go/v2/datalog"

	"verif/internal/hx"
	"verif/internal/refdl"
	"verif/internal/sup"
	"verif/internal/wire"
)

// C17 — revocation identifiers: explicit enumeration of derivation histories.
// An operation is identified by the history prefix that ends with it; its RNG
// stream is derived from that prefix, so different operations draw different
// randomness and the same operation replayed draws the same.

var c17Contents = map[byte]refdl.Block{'E': {}, 'P': poolP, 'Q': poolQ}

// ops: b/B (build with root 1/2) then a sequence over: e p q (append empty/P/Q), S (seal), R (roundtrip)
func c17Histories(max int) []string {
	var out []string
	var rec func(cur string, sealed bool)
	rec = func(cur string, sealed bool) {
		out = append(out, cur)
		if len(cur) >= max {
			return
		}
		for _, o := range "epqSR" {
			if sealed && o != 'R' {
				continue
			}
			rec(cur+string(o), sealed || o == 'S')
		}
	}
	for _, first := range []string{"1E", "1P", "1Q", "2P"} {
		rec(first, false)
	}
	return out
}

func seedOf(prefix string) uint64 {
	h := fnv.New64a()
	h.Write([]byte(prefix))
	return h.Sum64()
}

// oneByte delivers one byte per Read call (a legal io.Reader: short reads without error).
type oneByte struct{ r io.Reader }

func (o oneByte) Read(p []byte) (int, error) {
	if len(p) == 0 {
		return 0, nil
	}
	return o.r.Read(p[:1])
}

func c17RNG(seed uint64, short bool) io.Reader {
	if short {
		return oneByte{hx.NewRNG(seed)}
	}
	return hx.NewRNG(seed)
}

// c17Replay executes a history and returns the token after every step.
func c17Replay(hist string, short bool) ([]*biscuit.Biscuit, error) {
	root := byte(hist[0] - '0')
	_, priv := hx.Keys(root)
	b := biscuit.NewBuilder(priv, biscuit.WithRNG(c17RNG(seedOf(hist[:2]), short)))
	if err := hx.FillBuilder(b, c17Contents[hist[1]]); err != nil {
		return nil, err
	}
	tok, err := b.Build()
	if err != nil {
		return nil, err
	}
	toks := []*biscuit.Biscuit{tok}
	// one decoder value for the whole history, as a service would keep one around
	dec := &biscuit.Unmarshaler{Symbols: &datalog.SymbolTable{}}
	for k := 2; k < len(hist); k++ {
		switch o := hist[k]; o {
		case 'e', 'p', 'q':
			bb := tok.CreateBlock()
			if err := hx.FillBlock(bb, c17Contents[o-32]); err != nil {
				return nil, err
			}
			tok, err = tok.Append(c17RNG(seedOf(hist[:k+1]), short), bb.Build())
		case 'S':
			tok, err = tok.Seal(c17RNG(seedOf(hist[:k+1]), short))
		case 'R':
			var ser []byte
			ser, err = tok.Serialize()
			if err == nil {
				tok, err = dec.Unmarshal(ser)
				// the caller reuses its receive buffer: the token must not live in it
				for k := range ser {
					ser[k] ^= 0xff
				}
			}
		}
		if err != nil {
			return nil, fmt.Errorf("step %d (%c): %v", k, hist[k], err)
		}
		toks = append(toks, tok)
	}
	return toks, nil
}

func init() {
	register(&sup.Check{
		ID:        "C17",
		Level:     "model_checking",
		Technique: "explicit enumeration of all derivation histories up to depth 6/8 on the real code; identifiers compared with independently decoded signatures and, across the whole explored family, pairwise for uniqueness",
		Rule:      "all histories: Build(root 1 with empty/P/Q, root 2 with P) followed by up to 5 (quick) / 7 (thorough) operations over {Append(empty), Append(P), Append(Q), Seal, Serialize+Unmarshal}; each operation draws from its own RNG stream. Oracle per step: one id per block; the parent's ids are a prefix of the child's; id[i] equals the signature the independent decoder finds on block i. Oracle over the family: two blocks signed by different operations never share an id (all pairs, via a global map). Non-trivial = history with at least one derivation; distinct by construction. states = histories, transitions = operations.",
		Assume:    []string{"identical operations replayed with the same RNG stream are the same operation (same id expected)"},
		Spaces: func(c *sup.Ctx) []*sup.Space {
			hists := c17Histories(sup.Pick(c, 7, 9))
			mk := func(name string, hists []string, short bool) *sup.Space {
				var mu sync.Mutex
				owner := map[string]string{} // signature -> operation (history prefix) that created it
				var self *sup.Space
				self = &sup.Space{Name: name, Size: func(*sup.Ctx) int64 { return int64(len(hists)) }, Run: func(i int64, w *sup.W) {
					hist := hists[i]
					toks, err := c17Replay(hist, short)
					if err != nil {
						w.Class("op-error")
						w.Violate("C17:operation-failed", hist, err.Error(), "every operation of the history succeeds")
						return
					}
					w.Stats().States++
					w.Stats().Transitions += int64(len(hist) - 1)
					// which operation signed block j: the j-th signing operation of the history
					var signers []string
					for k := 1; k < len(hist); k++ {
						if k == 1 || strings.ContainsRune("epq", rune(hist[k])) {
							signers = append(signers, hist[:k+1])
						}
					}
					var prev [][]byte
					nblocks := 0
					for step, tok := range toks {
						k := step + 1 // index in hist of the op that produced tok
						if k == 1 || strings.ContainsRune("epq", rune(hist[k])) {
							nblocks++
						}
						// verification attempts - rejected under a retired key, accepted under the right one - are
						// read-only: the identifiers read before, between and after them are the same
						id0 := tok.RevocationIds()
						wrong, _ := hx.Keys(9)
						right, _ := hx.Keys(byte(hist[0] - '0'))
						_, werr := tok.AuthorizerFor(biscuit.WithSingularRootPublicKey(wrong), hx.LongLimits)
						id1 := tok.RevocationIds()
						_, rerr := tok.AuthorizerFor(biscuit.WithSingularRootPublicKey(right), hx.LongLimits)
						ids := tok.RevocationIds()
						if werr == nil || rerr != nil {
							w.Violate("C17:verification-verdict", fmt.Sprintf("%s after step %d", hist, step), fmt.Sprint(werr, rerr), "rejected under a foreign root, accepted under its own")
							return
						}
						if fmt.Sprintf("%x", id0) != fmt.Sprintf("%x", id1) || fmt.Sprintf("%x", id1) != fmt.Sprintf("%x", ids) {
							w.Class("ids-changed-by-verification")
							w.Violate("C17:ids-changed-by-a-verification-attempt", fmt.Sprintf("%s after step %d", hist, step), fmt.Sprintf("before %x, after a rejected verification %x, after a successful one %x", id0, id1, ids), "identical")
							return
						}
						if len(ids) != nblocks {
							w.Class("wrong-count")
							w.Violate("C17:id-count", fmt.Sprintf("%s after step %d", hist, step), fmt.Sprint(len(ids)), fmt.Sprint(nblocks))
							return
						}
						for j := range prev {
							if !bytes.Equal(prev[j], ids[j]) {
								w.Class("prefix-changed")
								w.Violate("C17:parent-ids-not-a-prefix", fmt.Sprintf("%s after step %d (%c)", hist, step, hist[k]), fmt.Sprintf("id[%d]=%x", j, ids[j]), fmt.Sprintf("%x", prev[j]))
								return
							}
						}
						ser, err := tok.Serialize()
						if err != nil {
							w.Violate("C17:serialize-failed", hist, err.Error(), "bytes")
							return
						}
						env, err := wire.DecodeEnvelope(ser)
						if err != nil {
							w.Violate("C17:reference-decoder-rejects-library-bytes", hist, err.Error(), "decodable")
							return
						}
						all := append([]wire.SignedBlock{env.Authority}, env.Blocks...)
						if len(all) != len(ids) {
							w.Violate("C17:id-count-vs-wire", hist, fmt.Sprint(len(ids)), fmt.Sprint(len(all)))
							return
						}
						for j := range ids {
							if !bytes.Equal(ids[j], all[j].Sig) {
								w.Class("id-not-signature")
								w.Violate("C17:id-differs-from-wire-signature", fmt.Sprintf("%s block %d", hist, j), fmt.Sprintf("%x", ids[j]), fmt.Sprintf("%x", all[j].Sig))
								return
							}
						}
						prev = ids
					}
					// fork: two further tokens derived from the final token must not disturb it or each other
					final := toks[len(toks)-1]
					if !strings.ContainsRune(hist, 'S') {
						mkChild := func(tag byte) (*biscuit.Biscuit, error) {
							bb := final.CreateBlock()
							if err := hx.FillBlock(bb, c17Contents[tag]); err != nil {
								return nil, err
							}
							return final.Append(c17RNG(seedOf(hist+"|fork"+string(tag)), short), bb.Build())
						}
						a, err := mkChild('P')
						if err != nil {
							w.Violate("C17:fork-failed", hist, err.Error(), "a token")
							return
						}
						idsA := a.RevocationIds()
						serA, _ := a.Serialize()
						b, err := mkChild('Q')
						if err != nil {
							w.Violate("C17:fork-failed", hist, err.Error(), "a token")
							return
						}
						w.Stats().Transitions += 2
						after := a.RevocationIds()
						serA2, _ := a.Serialize()
						same := len(after) == len(idsA) && bytes.Equal(serA, serA2)
						for k := range idsA {
							if same && !bytes.Equal(idsA[k], after[k]) {
								same = false
							}
						}
						if !same {
							w.Class("sibling-disturbed")
							w.Violate("C17:sibling-derivation-changes-ids", hist+" then Append(P) -> a, Append(Q) -> b on the same parent", fmt.Sprintf("ids of a after b was created: %x", after), fmt.Sprintf("%x", idsA))
							return
						}
						// one built block appended twice: two signing operations, two identifiers, and the first
						// child keeps its own
						bb2 := final.CreateBlock()
						hx.FillBlock(bb2, c17Contents['P'])
						sameBlk := bb2.Build()
						c1, e1 := final.Append(c17RNG(seedOf(hist+"|same1"), short), sameBlk)
						var c1ids [][]byte
						if e1 == nil {
							c1ids = c1.RevocationIds()
						}
						c2, e2 := final.Append(c17RNG(seedOf(hist+"|same2"), short), sameBlk)
						if e1 != nil || e2 != nil {
							w.Violate("C17:fork-failed", hist, fmt.Sprint(e1, e2), "tokens")
							return
						}
						w.Stats().Transitions += 2
						if fmt.Sprintf("%x", c1.RevocationIds()) != fmt.Sprintf("%x", c1ids) {
							w.Class("sibling-disturbed")
							w.Violate("C17:sibling-derivation-changes-ids", hist+" then the same built block appended twice", fmt.Sprintf("first child now reports %x", c1.RevocationIds()), fmt.Sprintf("%x", c1ids))
							return
						}
						if l1, l2 := c1.RevocationIds(), c2.RevocationIds(); bytes.Equal(l1[len(l1)-1], l2[len(l2)-1]) {
							w.Class("siblings-share-id")
							w.Violate("C17:siblings-share-an-id", hist+" then the same built block appended twice", fmt.Sprintf("%x", l1[len(l1)-1]), "distinct identifiers")
							return
						}
						idsB := b.RevocationIds()
						if len(idsB) != len(idsA) || bytes.Equal(idsA[len(idsA)-1], idsB[len(idsB)-1]) {
							w.Class("siblings-share-id")
							w.Violate("C17:siblings-share-an-id", hist+" forked", fmt.Sprintf("%x / %x", idsA[len(idsA)-1], idsB[len(idsB)-1]), "distinct identifiers")
							return
						}
						for k := range prev {
							if !bytes.Equal(prev[k], idsA[k]) || !bytes.Equal(prev[k], idsB[k]) || !bytes.Equal(prev[k], final.RevocationIds()[k]) {
								w.Violate("C17:parent-ids-not-a-prefix-after-fork", hist+" forked", "changed", "unchanged")
								return
							}
						}
					}
					mu.Lock()
					for j, id := range prev {
						if o, ok := owner[string(id)]; ok && o != signers[j] {
							mu.Unlock()
							w.Class("duplicate-id")
							w.SetCase(map[string]interface{}{"pair": []string{hist, o}})
							w.Violate("C17:two-operations-share-an-id", fmt.Sprintf("block %d of %s (signed by operation %s) and a block signed by operation %s", j, hist, signers[j], o), fmt.Sprintf("%x", id), "distinct identifiers")
							return
						}
						owner[string(id)] = signers[j]
					}
					mu.Unlock()
					w.Class(fmt.Sprintf("%d-blocks", nblocks))
					if len(hist) > 2 {
						w.NontrivialByIndex()
					}
					if w.WantSample(fmt.Sprint(nblocks)) {
						w.Sample(fmt.Sprint(nblocks), map[string]string{"history": hist, "ids": fmt.Sprintf("%x", prev)})
					}
				}, ReplayCase: func(raw json.RawMessage, w *sup.W) {
					var cs struct {
						Idx  *int64   `json:"idx"`
						Pair []string `json:"pair"`
					}
					if json.Unmarshal(raw, &cs) != nil {
						return
					}
					if len(cs.Pair) != 2 {
						if cs.Idx != nil && *cs.Idx < int64(len(hists)) {
							self.Run(*cs.Idx, w)
						}
						return
					}
					// two operations, each replayed from its own history: do they share an identifier?
					w.SetCase(map[string]interface{}{"pair": cs.Pair})
					var idb []byte
					if toks, err := c17Replay(cs.Pair[1], short); err == nil && len(toks) > 0 {
						ids := toks[len(toks)-1].RevocationIds()
						idb = ids[len(ids)-1] // the owner entry is the history prefix ending with the signing operation
					}
					if toks, err := c17Replay(cs.Pair[0], short); err == nil && idb != nil {
						for _, id := range toks[len(toks)-1].RevocationIds() {
							if bytes.Equal(id, idb) {
								w.Violate("C17:two-operations-share-an-id", fmt.Sprintf("a block of %s and the block signed by operation %s", cs.Pair[0], cs.Pair[1]), fmt.Sprintf("%x", id), "distinct identifiers")
								return
							}
						}
					}
				}}
				return self
			}
			// the second space draws all randomness through a reader that delivers one byte per call
			return []*sup.Space{mk("derivation-histories", hists, false), mk("derivation-histories-short-reads", c17Histories(sup.Pick(c, 6, 7)), true)}
		},
	})
}
