package props

import (
	"fmt"
	"strings"
	"time"

	"github.com/biscuit-auth/biscuit-go/v2/datalog"

	"verif/internal/alpha"
	"verif/internal/dlx"
	"verif/internal/refdl"
	rx "verif/internal/refexpr"
	"verif/internal/sup"
)

// ---- C05-A: the join enumerator (QueryRule) --------------------------------

type c05Dom struct {
	d       alpha.Domain
	uni     []refdl.Atom
	rules1  []refdl.Rule // 1-atom bodies (with expression variants)
	rules2  []refdl.Rule // 2-atom bodies
	rules3  []refdl.Rule // 3-atom bodies over the sub-alphabet
	lists   map[int][][]int
	listsOf func(max int) [][]int
}

func c05RulesFor(d alpha.Domain, bodies [][]refdl.Atom, withExprs bool) []refdl.Rule {
	var out []refdl.Rule
	for _, body := range bodies {
		vs := alpha.BodyVars(body)
		for _, h := range alpha.Heads(d, body) {
			out = append(out, refdl.Rule{Head: h, Body: body})
			if withExprs && len(vs) > 0 {
				out = append(out, refdl.Rule{Head: h, Body: body, Exprs: [][]rx.Op{alpha.EqExpr(vs[0], d.C0)}})
				// an expression that evaluates without error to a non-boolean value (the bound
				// term itself) holds for no substitution - except when the value is `true`
				out = append(out, refdl.Rule{Head: h, Body: body, Exprs: [][]rx.Op{{{Kind: rx.OpValue, V: rx.Var(vs[0])}}}})
				if len(vs) > 1 {
					out = append(out, refdl.Rule{Head: h, Body: body, Exprs: [][]rx.Op{alpha.EqVars(vs[0], vs[1])}})
				}
			}
		}
	}
	return out
}

var c05Doms = func() []*c05Dom {
	var out []*c05Dom
	for _, d := range alpha.Domains {
		cd := &c05Dom{d: d, uni: alpha.Universe(d), lists: map[int][][]int{}}
		at := alpha.Atoms(d)
		var b1, b2, b3 [][]refdl.Atom
		for _, a := range at {
			b1 = append(b1, []refdl.Atom{a})
			for _, b := range at {
				b2 = append(b2, []refdl.Atom{a, b})
			}
		}
		a3 := alpha.Atoms3(d)
		for _, a := range a3 {
			for _, b := range a3 {
				for _, c := range a3 {
					b3 = append(b3, []refdl.Atom{a, b, c})
				}
			}
		}
		cd.rules1 = c05RulesFor(d, b1, true)
		cd.rules2 = c05RulesFor(d, b2, true)
		cd.rules3 = c05RulesFor(d, b3, false)
		for _, m := range []int{2, 3, 4} {
			cd.lists[m] = alpha.OrderedLists(len(cd.uni), m)
		}
		out = append(out, cd)
	}
	return out
}()

func c05QueryCase(w *sup.W, cd *c05Dom, r refdl.Rule, list []int) {
	syms := dlx.NewSyms()
	world := datalog.NewWorld(datalog.WithMaxDuration(time.Hour))
	facts := refdl.Set{}
	var order []string
	for _, i := range list {
		world.AddFact(syms.Fact(cd.uni[i]))
		facts.Add(cd.uni[i])
		order = append(order, cd.uni[i].Key())
	}
	dr := syms.Rule(r)
	tab := syms.Tab
	got := world.QueryRule(dr, &tab)
	syms.Tab = tab
	want, rerr := refdl.Apply(r, facts)
	human := func() string {
		return fmt.Sprintf("[%s] query %s against facts (in this order) %s", cd.d.Name, r.String(), strings.Join(order, " "))
	}
	if rerr != nil {
		w.Class("expression-error")
		return
	}
	gs, dups, err := syms.BackSet(got)
	if err != nil {
		w.Class("bad-result")
		w.Violate("query:unresolvable-result", human(), err.Error(), want.String())
		return
	}
	if dups > 0 {
		w.Class("duplicates")
		w.Violate("query:duplicate-facts", human(), fmt.Sprintf("%d duplicate facts in the result", dups), want.String())
		return
	}
	if !gs.Equal(want) {
		w.Class("wrong-set")
		kind := "missing"
		if len(gs) > len(want) {
			kind = "extra"
		}
		w.Violate(fmt.Sprintf("query:wrong-set:%s:%d-atom-body", kind, len(r.Body)), human(), gs.String(), want.String())
		return
	}
	if len(want) == 0 {
		w.Class("no-match")
	} else {
		w.Class("match")
		w.NontrivialByIndex()
		if w.WantSample("match") {
			w.Sample("match", map[string]string{"case": human(), "result": gs.String()})
		}
	}
}

// ---- C05-B: fixpoint (Run) ---------------------------------------------------

// c05FixRules: a recursive rule alphabet over the int domain and one mixed domain.
func c05FixRules(d alpha.Domain) []refdl.Rule {
	X, Y := alpha.X, alpha.Y
	heads := []refdl.Atom{refdl.A("p", X), refdl.A("q", X), refdl.A("q", Y), refdl.A("r", X, Y), refdl.A("r", Y, X), refdl.A("r", X, X), refdl.A("z"), refdl.A("p", d.C0), refdl.A("r", d.C1, X)}
	bodyAtoms := []refdl.Atom{refdl.A("p", X), refdl.A("q", X), refdl.A("q", Y), refdl.A("r", X, Y), refdl.A("r", Y, X), refdl.A("r", X, d.C0), refdl.A("z"), refdl.A("p", d.C1)}
	var bodies [][]refdl.Atom
	for _, a := range bodyAtoms {
		bodies = append(bodies, []refdl.Atom{a})
	}
	for _, a := range bodyAtoms {
		for _, b := range bodyAtoms {
			bodies = append(bodies, []refdl.Atom{a, b})
		}
	}
	var out []refdl.Rule
	for _, b := range bodies {
		for _, h := range heads {
			r := refdl.Rule{Head: h, Body: b}
			if r.RangeRestricted() {
				out = append(out, r)
			}
		}
	}
	// expression-only bodies and a filtered recursion
	out = append(out,
		refdl.Rule{Head: refdl.A("z"), Exprs: [][]rx.Op{{{Kind: rx.OpValue, V: rx.Bool(true)}}}},
		refdl.Rule{Head: refdl.A("p", d.C1), Exprs: [][]rx.Op{{{Kind: rx.OpValue, V: rx.Bool(false)}}}},
		refdl.Rule{Head: refdl.A("q", X), Body: []refdl.Atom{refdl.A("p", X)}, Exprs: [][]rx.Op{alpha.EqExpr("x", d.C0)}},
	)
	return out
}

type c05Fix struct {
	d     alpha.Domain
	uni   []refdl.Atom
	rules []refdl.Rule
	small []refdl.Rule // sub-alphabet for pairs
}

var c05Fixes = func() []*c05Fix {
	var out []*c05Fix
	for _, d := range alpha.Domains {
		if d.Name != "int" && d.Name != "str" && d.Name != "mix-int-str1024" && d.Name != "setorder" && d.Name != "setbytes" {
			continue
		}
		f := &c05Fix{d: d, uni: alpha.Universe(d), rules: c05FixRules(d)}
		// pairs: every 1-atom-body rule plus the special rules
		for _, r := range f.rules {
			if len(r.Body) <= 1 {
				f.small = append(f.small, r)
			}
		}
		out = append(out, f)
	}
	return out
}()

func c05RunCase(w *sup.W, f *c05Fix, rules []refdl.Rule, subset int, reversed bool) {
	syms := dlx.NewSyms()
	world := datalog.NewWorld(datalog.WithMaxDuration(time.Hour), datalog.WithMaxFacts(100000), datalog.WithMaxIterations(100000))
	facts := refdl.Set{}
	var order []string
	n := len(f.uni)
	for k := 0; k < n; k++ {
		i := k
		if reversed {
			i = n - 1 - k
		}
		if subset&(1<<uint(i)) == 0 {
			continue
		}
		world.AddFact(syms.Fact(f.uni[i]))
		facts.Add(f.uni[i])
		order = append(order, f.uni[i].Key())
	}
	var rs []string
	for _, r := range rules {
		world.AddRule(syms.Rule(r))
		rs = append(rs, r.String())
	}
	tab := syms.Tab
	err := world.Run(&tab)
	syms.Tab = tab
	want, tr, rerr := refdl.Fixpoint(facts, rules)
	human := func() string {
		return fmt.Sprintf("[%s] run rules {%s} on facts (in this order) %s", f.d.Name, strings.Join(rs, " ; "), strings.Join(order, " "))
	}
	if rerr != nil {
		if err == nil {
			w.Class("missing-error")
			w.Violate("run:expression-error-swallowed", human(), "Run returned nil", "an error (reference: "+rerr.Error()+")")
			return
		}
		w.Class("expression-error")
		return
	}
	if err != nil {
		w.Class("unexpected-error")
		w.Violate("run:unexpected-error", human(), "error: "+err.Error(), "nil with facts "+want.String())
		return
	}
	gs, dups, berr := syms.BackSet(world.Facts())
	if berr != nil || dups > 0 {
		w.Class("bad-result")
		w.Violate("run:bad-fact-store", human(), fmt.Sprintf("%v, %d duplicates", berr, dups), want.String())
		return
	}
	if !gs.Equal(want) {
		w.Class("wrong-fixpoint")
		kind := "missing"
		if len(gs) > len(want) {
			kind = "extra"
		}
		w.Violate("run:wrong-fixpoint:"+kind, human(), gs.String(), want.String())
		return
	}
	if len(want) > len(facts) {
		w.Class(fmt.Sprintf("derived-in-%d-rounds", tr.Iterations-1))
		w.NontrivialByIndex()
		if w.WantSample("derived") {
			w.Sample("derived", map[string]string{"case": human(), "fixpoint": gs.String()})
		}
	} else {
		w.Class("nothing-derived")
	}
}

func init() {
	register(&sup.Check{
		ID:           "C05",
		Procs:        func(string) int { return 16 },
		SingleThread: true,
		Level:        "exploration",
		Technique:    "bounded-exhaustive enumeration of Datalog programs and fact orders on the real engine against a reference least-fixpoint evaluator",
		Rule:         "QueryRule: every rule with a 1- or 2-atom body over the 25 DL-small atoms (3-atom bodies over an 8-atom sub-alphabet), 3 head shapes, with and without an equality expression, against every ORDERED list of up to 3-4 distinct ground facts, in 15 constant domains (every term type, same-payload/different-type pairs, one set in two orders). Run: every single rule of a recursive alphabet and every ordered pair of a sub-alphabet against every subset of the 9-fact universe in two insertion orders. Non-trivial = at least one match / at least one derived fact; distinct by the written case.",
		Assume:       []string{"reference: recursive-substitution least fixpoint over Go values (internal/refdl)", "cases whose expressions err for some substitution are only checked for absence of panics: the statement defines results for error-free evaluation"},
		Spaces: func(c *sup.Ctx) []*sup.Space {
			l1 := sup.Pick(c, 3, 4) // list length for 1-atom bodies
			l2 := sup.Pick(c, 2, 3)
			l3 := sup.Pick(c, 2, 3)
			type seg struct {
				cd    *c05Dom
				rules []refdl.Rule
				lists [][]int
				base  int64
			}
			var segs []seg
			var total int64
			for _, cd := range c05Doms {
				full := cd.d.Name == "int" || c.Thorough()
				for k, rs := range [][]refdl.Rule{cd.rules1, cd.rules2, cd.rules3} {
					ll := []int{l1, l2, l3}[k]
					if k == 0 && full {
						ll = 4
					}
					if k == 1 && full {
						ll = 3
					}
					if k == 2 && !full {
						continue
					}
					s := seg{cd: cd, rules: rs, lists: cd.lists[ll], base: total}
					total += int64(len(rs)) * int64(len(s.lists))
					segs = append(segs, s)
				}
			}
			query := &sup.Space{Name: "query-rule", Size: func(*sup.Ctx) int64 { return total }, Run: func(i int64, w *sup.W) {
				k := len(segs) - 1
				for segs[k].base > i {
					k--
				}
				s := segs[k]
				i -= s.base
				nl := int64(len(s.lists))
				c05QueryCase(w, s.cd, s.rules[i/nl], s.lists[i%nl])
			}}
			// Run: singles
			type fseg struct {
				f     *c05Fix
				pairs bool
				base  int64
				nr    int64
			}
			var fsegs []fseg
			var ftotal int64
			for _, f := range c05Fixes {
				nsub := int64(1) << uint(len(f.uni))
				fs := fseg{f: f, base: ftotal, nr: int64(len(f.rules))}
				ftotal += fs.nr * nsub * 2
				fsegs = append(fsegs, fs)
				if f.d.Name == "int" || c.Thorough() {
					ps := fseg{f: f, pairs: true, base: ftotal, nr: int64(len(f.small)) * int64(len(f.small))}
					ftotal += ps.nr * nsub * 2
					fsegs = append(fsegs, ps)
				}
			}
			run := &sup.Space{Name: "run-fixpoint", Size: func(*sup.Ctx) int64 { return ftotal }, Run: func(i int64, w *sup.W) {
				k := len(fsegs) - 1
				for fsegs[k].base > i {
					k--
				}
				s := fsegs[k]
				i -= s.base
				rev := i%2 == 1
				i /= 2
				nsub := int64(1) << uint(len(s.f.uni))
				subset := int(i % nsub)
				ri := i / nsub
				var rules []refdl.Rule
				if s.pairs {
					ns := int64(len(s.f.small))
					rules = []refdl.Rule{s.f.small[ri/ns], s.f.small[ri%ns]}
				} else {
					rules = []refdl.Rule{s.f.rules[ri]}
				}
				c05RunCase(w, s.f, rules, subset, rev)
			}}
			return []*sup.Space{c05CloneSpace(), c05LifeSpace(c), query, run}
		},
	})
}
