package props

import (
	"fmt"
	"math"
	"strings"

	"github.com/biscuit-auth/biscuit-go/v2/datalog"

	"verif/internal/dlx"
	rx "verif/internal/refexpr"
	"verif/internal/sup"
)

// c06Values is the value-class grid V of DESIGN §4-C06.
func c06Values() []rx.Val {
	ints := []int64{math.MinInt64, math.MinInt64 + 1, -3037000500, -2, -1, 0, 1, 2, 3037000499, 3037000500, 1 << 31, 1 << 32, math.MaxInt64 - 1, math.MaxInt64}
	var v []rx.Val
	for _, i := range ints {
		v = append(v, rx.Int(i))
	}
	for _, s := range []string{"", "a", "ab", "b", "a.*", "(", "read", "é", "日本a"} {
		v = append(v, rx.Str(s))
	}
	for _, d := range []uint64{0, 1, 1 << 63, math.MaxUint64} {
		v = append(v, rx.Date(d))
	}
	for _, b := range [][]byte{{}, {0}, {0, 1}} {
		v = append(v, rx.Bytes(b))
	}
	v = append(v, rx.Bool(true), rx.Bool(false))
	v = append(v,
		rx.SetOf(rx.Int(1)), rx.SetOf(rx.Int(1), rx.Int(2)), rx.SetOf(rx.Int(2), rx.Int(1)), rx.SetOf(rx.Int(3)),
		rx.SetOf(rx.Str("a")), rx.SetOf(rx.Str("a"), rx.Str("b")), rx.SetOf(rx.Str("read")),
		rx.SetOf(rx.Date(1)), rx.SetOf(rx.Date(1), rx.Date(2)),
		rx.SetOf(rx.Bytes([]byte{0})), rx.SetOf(rx.Bytes([]byte{0}), rx.Bytes([]byte{0, 1})), rx.SetOf(rx.Bytes([]byte{})),
		rx.SetOf(rx.Bool(true)), rx.SetOf(rx.Bool(true), rx.Bool(false)),
		rx.SetOf(rx.Int(1), rx.Str("a")),        // mixed-type set
		rx.SetOf(rx.SetOf(rx.Int(1))),           // nested set
		rx.SetOf(rx.SetOf(rx.Bytes([]byte{0}))), // nested set of bytes
		rx.SetOf(),                              // empty set
		rx.SetOf(rx.Int(1), rx.Int(1)),          // duplicate element
	)
	return v
}

var c06V = c06Values()

var c06Ints = func() []rx.Val {
	var out []rx.Val
	for _, v := range c06V {
		if v.K == rx.KInt {
			out = append(out, v)
		}
	}
	return out
}()

// c06Alphabet: 8 value representatives + 3 unary + 17 binary operators.
var c06Alphabet = func() []rx.Op {
	vals := []rx.Val{rx.Int(1), rx.Int(math.MaxInt64), rx.Str("a"), rx.Bool(true), rx.SetOf(rx.Int(1)), rx.SetOf(rx.Bytes([]byte{0})), rx.Var("x"), rx.Var("unbound")}
	var a []rx.Op
	for _, v := range vals {
		a = append(a, rx.Op{Kind: rx.OpValue, V: v})
	}
	for u := rx.Negate; u <= rx.Length; u++ {
		a = append(a, rx.Op{Kind: rx.OpUnary, U: u})
	}
	for b := rx.Binary(0); b < rx.NBinary; b++ {
		a = append(a, rx.Op{Kind: rx.OpBinary, B: b})
	}
	return a
}()

// c06Run evaluates ops on the library and compares with the reference.
func c06Run(w *sup.W, ops []rx.Op, bind map[string]rx.Val) {
	syms := dlx.NewSyms()
	expr := syms.Expr(ops)
	values := map[datalog.Variable]*datalog.Term{}
	for name, v := range bind {
		t := syms.Term(v)
		values[datalog.Variable(syms.Index(name))] = &t
	}
	allowed := rx.Eval(ops, bind)
	tab := syms.Tab
	before := c06Operands(expr, values)
	got, err := expr.Evaluate(values, &tab)
	syms.Tab = tab
	// evaluation must not modify its operands: a second evaluation (another rule, another
	// combination) reads the same literals and bindings
	if after := c06Operands(expr, values); after != before {
		w.Class("operand-modified")
		w.Violate("expr:operand-modified:"+rx.OpsString(opsShape(ops)), rx.OpsString(ops), "operands after evaluation: "+after, "unchanged: "+before)
		return
	}
	human := func() string {
		s := rx.OpsString(ops)
		if len(bind) > 0 {
			s += fmt.Sprintf("  with %v", bind)
		}
		return s
	}
	opnames := func() string {
		if loc := c06Locate(ops, bind); loc != "" {
			return loc
		}
		var n []string
		for _, o := range ops {
			if o.Kind != rx.OpValue {
				n = append(n, o.String())
			} else {
				n = append(n, o.V.K.String())
			}
		}
		return strings.Join(n, " ")
	}
	if err != nil {
		if !allowed.Allows(true, rx.Val{}) {
			w.Class("unexpected-error")
			w.Violate("expr:unexpected-error:"+opnames(), human(), "error: "+err.Error(), allowed.String())
			return
		}
		w.Class("error")
		if w.WantSample("error") {
			w.Sample("error", map[string]string{"expr": human(), "result": "error"})
		}
		return
	}
	gv, berr := syms.Back(got)
	if berr != nil {
		w.Class("bad-result")
		w.Violate("expr:bad-result:"+opnames(), human(), fmt.Sprintf("%v (%v)", got, berr), allowed.String())
		return
	}
	if !allowed.Allows(false, gv) {
		cls := "wrong-value"
		if !allowed.Err || len(allowed.Vals) > 0 {
			cls = "wrong-value"
		}
		if len(allowed.Vals) == 0 {
			cls = "missing-error"
		}
		w.Class(cls)
		w.Violate("expr:"+cls+":"+opnames(), human(), gv.Key(), allowed.String())
		return
	}
	w.Class("value")
	w.Nontrivial(human())
	if w.WantSample("value") {
		w.Sample("value", map[string]string{"expr": human(), "result": gv.Key()})
	}
}

// c06Locate finds the first primitive step (one operator applied to the
// reference's operand values) on which the library and the reference disagree,
// so that one root cause has one signature whatever expression exposed it.
func c06Locate(ops []rx.Op, bind map[string]rx.Val) string {
	var stack []rx.Val
	for _, op := range ops {
		switch op.Kind {
		case rx.OpValue:
			v := op.V
			if v.K == rx.KVar {
				b, ok := bind[v.S]
				if !ok {
					return ""
				}
				v = b
			}
			stack = append(stack, v)
			continue
		}
		n := 1
		if op.Kind == rx.OpBinary {
			n = 2
		}
		if len(stack) < n {
			return ""
		}
		args := stack[len(stack)-n:]
		stack = stack[:len(stack)-n]
		prim := []rx.Op{}
		kinds := []string{}
		for _, a := range args {
			prim = append(prim, valOp(a))
			kinds = append(kinds, a.K.String())
		}
		prim = append(prim, op)
		allowed := rx.Eval(prim, nil)
		syms := dlx.NewSyms()
		expr := syms.Expr(prim)
		tab := syms.Tab
		var got datalog.Term
		var err error
		if r, _ := sup.Catch(func() { got, err = expr.Evaluate(nil, &tab) }); r != nil {
			return "step " + op.String() + "(" + strings.Join(kinds, ",") + ")"
		}
		syms.Tab = tab
		bad := false
		if err != nil {
			bad = !allowed.Allows(true, rx.Val{})
		} else if gv, berr := syms.Back(got); berr != nil || !allowed.Allows(false, gv) {
			bad = true
		}
		if bad {
			return "step " + op.String() + "(" + strings.Join(kinds, ",") + ")"
		}
		if len(allowed.Vals) != 1 || allowed.Err {
			return ""
		}
		stack = append(stack, allowed.Vals[0])
	}
	return ""
}

func valOp(v rx.Val) rx.Op { return rx.Op{Kind: rx.OpValue, V: v} }

func init() {
	nv := int64(len(c06V))
	register(&sup.Check{
		ID:        "C06",
		Level:     "exploration",
		Technique: "bounded-exhaustive enumeration of operator sequences and operand values on the real evaluator against a big-integer reference evaluator",
		Rule:      "every unary and binary operator applied to every operand (pair) of a 51-value grid covering all types, 64-bit boundaries and non-ASCII strings, literally and through bound variables; every (a∘b)∘c over the 14 boundary integers; every operator sequence up to length 3 (quick) / 5 (thorough) over a 28-symbol alphabet; stack-depth boundary cases. Non-trivial = the reference allows a value (well-typed, well-formed); distinct by the written expression.",
		Assume:    []string{"Go regexp, strings and math/big are the trusted base of the reference evaluator", "outcome sets are widened only for ill-formed sets and sets of different element types (DESIGN §4-C06); the length of a string is the byte count of its UTF-8 encoding, as the operator table defines it"},
		Spaces: func(c *sup.Ctx) []*sup.Space {
			seqMax := sup.Pick(c, 3, 5)
			na := int64(len(c06Alphabet))
			var seqSize int64
			pow := int64(1)
			for l := 1; l <= seqMax; l++ {
				pow *= na
				seqSize += pow
			}
			seqSize++ // the empty expression
			ni := int64(len(c06Ints))
			return []*sup.Space{
				{Name: "unary", Size: func(*sup.Ctx) int64 { return 3 * nv * 2 }, Run: func(i int64, w *sup.W) {
					mode := i % 2
					i /= 2
					u := rx.Unary(i % 3)
					v := c06V[i/3]
					if mode == 0 {
						c06Run(w, []rx.Op{valOp(v), {Kind: rx.OpUnary, U: u}}, nil)
					} else {
						c06Run(w, []rx.Op{valOp(rx.Var("x")), {Kind: rx.OpUnary, U: u}}, map[string]rx.Val{"x": v})
					}
				}},
				{Name: "binary", Size: func(*sup.Ctx) int64 { return int64(rx.NBinary) * nv * nv * 2 }, Run: func(i int64, w *sup.W) {
					mode := i % 2
					i /= 2
					b := rx.Binary(i % int64(rx.NBinary))
					i /= int64(rx.NBinary)
					l, r := c06V[i%nv], c06V[i/nv]
					if mode == 0 {
						c06Run(w, []rx.Op{valOp(l), valOp(r), {Kind: rx.OpBinary, B: b}}, nil)
					} else {
						c06Run(w, []rx.Op{valOp(rx.Var("x")), valOp(rx.Var("y")), {Kind: rx.OpBinary, B: b}}, map[string]rx.Val{"x": l, "y": r})
					}
				}},
				{Name: "arith3", Size: func(*sup.Ctx) int64 { return ni * ni * ni * 16 * 2 }, Run: func(i int64, w *sup.W) {
					shape := i % 2
					i /= 2
					o1 := rx.Add + rx.Binary(i%4)
					i /= 4
					o2 := rx.Add + rx.Binary(i%4)
					i /= 4
					a, b, cc := c06Ints[i%ni], c06Ints[(i/ni)%ni], c06Ints[i/ni/ni]
					if shape == 0 { // (a o1 b) o2 c
						c06Run(w, []rx.Op{valOp(a), valOp(b), {Kind: rx.OpBinary, B: o1}, valOp(cc), {Kind: rx.OpBinary, B: o2}}, nil)
					} else { // a o2 (b o1 c)
						c06Run(w, []rx.Op{valOp(a), valOp(b), valOp(cc), {Kind: rx.OpBinary, B: o1}, {Kind: rx.OpBinary, B: o2}}, nil)
					}
				}},
				{Name: "set-chains", Size: func(*sup.Ctx) int64 { return 2 * (8*8*8*4 + 8*8*8*8*8) }, Run: func(i int64, w *sup.W) {
					// results of set operations used as operands of further set operations: ((A o1 B) o2 C) and
					// (((A o1 B) o2 C) o3 D) over sets that are prefixes, suffixes, supersets of and disjoint from
					// each other, A written literally or bound to a variable; operands are re-read afterwards (c06Run)
					sets := []rx.Val{rx.SetOf(rx.Int(1)), rx.SetOf(rx.Int(1), rx.Int(2)), rx.SetOf(rx.Int(1), rx.Int(2), rx.Int(3)), rx.SetOf(rx.Int(2), rx.Int(3)),
						rx.SetOf(rx.Int(3)), rx.SetOf(rx.Int(7)), rx.SetOf(rx.Str("a"), rx.Str("b")), rx.SetOf(rx.Int(7), rx.Int(8), rx.Int(1), rx.Int(2))}
					sop := func(k int64) rx.Op { return rx.Op{Kind: rx.OpBinary, B: []rx.Binary{rx.Intersection, rx.Union}[k]} }
					viaVar := i%2 == 1
					i /= 2
					var ops []rx.Op
					a := func(v rx.Val) rx.Op {
						if viaVar {
							return valOp(rx.Var("x"))
						}
						return valOp(v)
					}
					var A rx.Val
					if i < 8*8*8*4 {
						A = sets[i%8]
						ops = []rx.Op{a(A), valOp(sets[i/8%8]), sop(i / 512 % 2), valOp(sets[i/64%8]), sop(i / 1024 % 2)}
					} else {
						i -= 8 * 8 * 8 * 4
						A = sets[i%8]
						ops = []rx.Op{a(A), valOp(sets[i/8%8]), sop(i / 4096 % 2), valOp(sets[i/64%8]), sop(i / 8192 % 2), valOp(sets[i/512%8]), sop(i / 16384 % 2)}
					}
					var bind map[string]rx.Val
					if viaVar {
						bind = map[string]rx.Val{"x": A}
					}
					c06Run(w, ops, bind)
				}},
				{Name: "sequences", Size: func(*sup.Ctx) int64 { return seqSize }, Run: func(i int64, w *sup.W) {
					var ops []rx.Op
					if i > 0 {
						i--
						l := 1
						p := na
						for i >= p {
							i -= p
							p *= na
							l++
						}
						for k := 0; k < l; k++ {
							ops = append(ops, c06Alphabet[i%na])
							i /= na
						}
					}
					c06Run(w, ops, map[string]rx.Val{"x": rx.Int(2)})
				}},
				{Name: "stack-depth", Size: func(*sup.Ctx) int64 { return 8 }, Run: func(i int64, w *sup.W) {
					n := []int{999, 1000, 1001, 1002}[i%4]
					var ops []rx.Op
					for k := 0; k < n; k++ {
						ops = append(ops, valOp(rx.Int(1)))
					}
					if i/4 == 0 {
						for k := 0; k < n-1; k++ {
							ops = append(ops, rx.Op{Kind: rx.OpBinary, B: rx.Add})
						}
					}
					c06Run(w, ops, nil)
				}},
				c06PairsSpace(),
			}
		},
	})
}
