package props

import (
	"crypto/ed25519"
	"errors"
	"fmt"
	"strings"

	biscuit "github.com/biscuit-auth/biscuit-go/v2"
	"github.com/biscuit-auth/biscuit-go/v2/datalog"

	"verif/internal/hx"
	"verif/internal/sup"
)

// C16 — the root key id travels with the token and selects exactly one key.
// Explicit enumeration of derivation histories x lookup tables.

var c16IDs = []*uint32{nil, u32(0), u32(7), u32(4294967295)}

func u32(v uint32) *uint32 { return &v }

func idStr(p *uint32) string {
	if p == nil {
		return "absent"
	}
	return fmt.Sprint(*p)
}

// c16Histories: all sequences over {A(ppend), S(eal), R(oundtrip)} up to the given length.
func c16Histories(max int) []string {
	out := []string{""}
	prev := []string{""}
	for l := 1; l <= max; l++ {
		var cur []string
		for _, p := range prev {
			for _, o := range "ASR" {
				cur = append(cur, p+string(o))
			}
		}
		out = append(out, cur...)
		prev = cur
	}
	return out
}

type c16Table struct {
	name     string
	singular *int // 1 right, 2 wrong
	keys     map[uint32]int
	def      int // 0 none, 1 right, 2 wrong
}

func c16Tables(id *uint32) []c16Table {
	var cand []uint32
	if id == nil {
		cand = []uint32{0, 1}
	} else {
		cand = []uint32{*id, *id + 1, 0}
		if *id == 0 {
			cand = []uint32{0, 1}
		}
	}
	var maps []map[uint32]int
	maps = append(maps, map[uint32]int{})
	for _, k := range cand {
		for v := 1; v <= 2; v++ {
			maps = append(maps, map[uint32]int{k: v})
		}
	}
	for i := 0; i < len(cand); i++ {
		for j := i + 1; j < len(cand); j++ {
			for v := 1; v <= 2; v++ {
				for u := 1; u <= 2; u++ {
					maps = append(maps, map[uint32]int{cand[i]: v, cand[j]: u})
				}
			}
		}
	}
	var out []c16Table
	for _, m := range maps {
		for def := 0; def <= 2; def++ {
			out = append(out, c16Table{name: fmt.Sprintf("keys=%v default=%d", m, def), keys: m, def: def})
		}
	}
	one, two := 1, 2
	out = append(out, c16Table{name: "singular-right", singular: &one}, c16Table{name: "singular-wrong", singular: &two})
	return out
}

func init() {
	register(&sup.Check{
		ID:        "C16",
		Level:     "model_checking",
		Technique: "explicit enumeration of all derivation histories (append, seal, serialize/unmarshal) up to depth 4 (quick) / 6 (thorough) crossed with all small key-lookup tables, on the real code",
		Rule:      "4 creation ids (absent, 0, 7, 2^32-1) x 4 creation option orders (with and without WithSymbols) x 2 passes (identifier read after every step / only at the end of the history) x all 121 (quick) / 1093 (thorough) operation sequences over {Append, Seal, Serialize+Unmarshal} of length <= 4 / 6 (operations refused on a sealed token leave it unchanged and must return an error) x every key map of size <= 2 over {id, id+1, 0} -> {right key, wrong key} x default in {none, right, wrong}, plus WithSingularRootPublicKey. Oracle: RootKeyID() of every derived token equals the creation id; AuthorizerFor succeeds iff the table maps the token's id (the default when absent) to the right key; errors.Is(err, ErrNoPublicKeyAvailable) iff there is no entry. Non-trivial = history non-empty; distinct by construction. states = (id, history) pairs, transitions = operations executed.",
		Assume:    []string{"the expected lookup result is computed from the table by the statement's rule, not by the library"},
		Spaces: func(c *sup.Ctx) []*sup.Space {
			hists := c16Histories(sup.Pick(c, 4, 6))
			type cs struct {
				id   int
				hist int
			}
			// how the token is created: the order of the builder options must not matter
			creations := []string{"NewBuilder(WithRNG, WithRootKeyID)", "NewBuilder(WithRootKeyID, WithRNG)", "NewBuilder(WithRootKeyID, WithSymbols, WithRNG)", "NewBuilder(WithSymbols, WithRNG, WithRootKeyID)"}
			// two passes: the identifier is read after every step, or only once the whole history has run
			// (a token nobody looked at is derived from, as a service that only forwards tokens does)
			size := int64(len(c16IDs)*len(hists)*len(creations)) * 2
			return []*sup.Space{{Name: "histories-x-tables", Size: func(*sup.Ctx) int64 { return size }, Run: func(i int64, w *sup.W) {
				quiet := i%2 == 1
				i /= 2
				creation := int(i) % len(creations)
				i /= int64(len(creations))
				id := c16IDs[int(i)%len(c16IDs)]
				hist := hists[int(i)/len(c16IDs)]
				base := datalog.SymbolTable{"base-symbol"}
				rightPub, priv := hx.Keys(1)
				wrongPub, _ := hx.Keys(2)
				opts := []interface{}{}
				_ = opts
				syms := append(datalog.SymbolTable{}, base...)
				rng := biscuit.WithRNG(hx.NewRNG(5))
				var b biscuit.Builder
				switch {
				case id == nil && creation < 2:
					b = biscuit.NewBuilder(priv, rng)
				case id == nil && creation == 2:
					b = biscuit.NewBuilder(priv, biscuit.WithSymbols(&syms), rng)
				case id == nil:
					b = biscuit.NewBuilder(priv, biscuit.WithSymbols(&syms), rng)
				case creation == 0:
					b = biscuit.NewBuilder(priv, rng, biscuit.WithRootKeyID(*id))
				case creation == 1:
					b = biscuit.NewBuilder(priv, biscuit.WithRootKeyID(*id), rng)
				case creation == 2:
					b = biscuit.NewBuilder(priv, biscuit.WithRootKeyID(*id), biscuit.WithSymbols(&syms), rng)
				default:
					b = biscuit.NewBuilder(priv, biscuit.WithSymbols(&syms), rng, biscuit.WithRootKeyID(*id))
				}
				hx.FillBuilder(b, poolP)
				tok, err := b.Build()
				human := func() string {
					return fmt.Sprintf("id=%s history=%s.Build;%s%s", idStr(id), creations[creation], strings.Join(strings.Split(hist, ""), ";"), map[bool]string{false: "", true: " (identifier read only at the end)"}[quiet])
				}
				if err != nil {
					w.Class("build-error")
					w.Violate("C16:build-failed", human(), err.Error(), "a token")
					return
				}
				if got := func() *uint32 {
					if quiet {
						return id
					}
					return tok.RootKeyID()
				}(); (got == nil) != (id == nil) || (got != nil && *got != *id) {
					w.Class("id-lost")
					w.Violate("C16:root-key-id-changed-by-build", human(), "RootKeyID()="+idStr(got)+" after Build", idStr(id))
					return
				}
				sealed := false
				kept := []*biscuit.Biscuit{tok}
				decBase := append(datalog.SymbolTable{}, base...)
				if creation < 2 {
					decBase = datalog.SymbolTable{}
				}
				dec := &biscuit.Unmarshaler{Symbols: &decBase} // one decoder for the whole history
				for k, op := range hist {
					w.Stats().Transitions++
					switch op {
					case 'A':
						bb := tok.CreateBlock()
						hx.FillBlock(bb, poolQ)
						nt, err := tok.Append(hx.NewRNG(uint64(100+k)), bb.Build())
						if sealed {
							if err == nil {
								w.Violate("C16:append-on-sealed-succeeded", human(), "token", "error")
								return
							}
							continue
						}
						if err != nil {
							w.Violate("C16:append-failed", human(), err.Error(), "a token")
							return
						}
						tok = nt
					case 'S':
						nt, err := tok.Seal(hx.NewRNG(uint64(200 + k)))
						if sealed {
							if err == nil {
								w.Violate("C16:seal-on-sealed-succeeded", human(), "token", "error")
								return
							}
							continue
						}
						if err != nil {
							w.Violate("C16:seal-failed", human(), err.Error(), "a token")
							return
						}
						tok = nt
						sealed = true
					case 'R':
						ser, err := tok.Serialize()
						if err != nil {
							w.Violate("C16:serialize-failed", human(), err.Error(), "bytes")
							return
						}
						var nt *biscuit.Biscuit
						if k%2 == 0 {
							nt, err = dec.Unmarshal(ser)
						} else if creation >= 2 {
							t := append(datalog.SymbolTable{}, base...)
							nt, err = (&biscuit.Unmarshaler{Symbols: &t}).Unmarshal(ser)
						} else {
							nt, err = biscuit.Unmarshal(ser)
						}
						if err != nil {
							w.Violate("C16:unmarshal-failed", human(), err.Error(), "a token")
							return
						}
						tok = nt
					}
					kept = append(kept, tok)
					if quiet {
						continue
					}
					got := tok.RootKeyID()
					if (got == nil) != (id == nil) || (got != nil && *got != *id) {
						w.Class("id-lost")
						w.Violate("C16:root-key-id-changed-by-"+map[rune]string{'A': "append", 'S': "seal", 'R': "roundtrip"}[op], human(), "RootKeyID()="+idStr(got)+" after step "+fmt.Sprint(k+1), idStr(id))
						return
					}
				}
				w.Stats().States++
				// every token of the history still reports the creation id (nothing derived later,
				// nothing loaded later through the same decoder, has changed it)
				{
					// a stranger with another identifier goes through the history's decoder last
					other := uint32(5)
					if id != nil {
						other = *id + 1
					}
					sb := biscuit.NewBuilder(priv, biscuit.WithRNG(hx.NewRNG(8)), biscuit.WithRootKeyID(other))
					hx.FillBuilder(sb, poolQ)
					if st, err := sb.Build(); err == nil {
						if ser, err := st.Serialize(); err == nil {
							dec.Unmarshal(ser)
						}
					}
				}
				for k, t := range kept {
					if got := t.RootKeyID(); (got == nil) != (id == nil) || (got != nil && *got != *id) {
						w.Class("id-lost")
						w.Violate("C16:root-key-id-of-an-earlier-token-changed", human(), fmt.Sprintf("token after step %d now reports %s", k, idStr(got)), idStr(id))
						return
					}
				}
				var companions []*biscuit.Biscuit
				if creation == 1 {
					mk := func(cid *uint32) {
						var cb biscuit.Builder
						if cid == nil {
							cb = biscuit.NewBuilder(priv, biscuit.WithRNG(hx.NewRNG(9)))
						} else {
							cb = biscuit.NewBuilder(priv, biscuit.WithRNG(hx.NewRNG(9)), biscuit.WithRootKeyID(*cid))
						}
						hx.FillBuilder(cb, poolQ)
						if c, err := cb.Build(); err == nil {
							companions = append(companions, c)
						}
					}
					zero := uint32(0)
					mk(nil)
					mk(&zero)
					if id != nil {
						next := *id + 1
						mk(&next)
					}
				}
				for _, tb := range c16Tables(id) {
					var src biscuit.PublickKeyByIDProjection
					want := 0 // 0 no key, 1 right, 2 wrong
					if tb.singular != nil {
						want = *tb.singular
						if want == 1 {
							src = biscuit.WithSingularRootPublicKey(rightPub)
						} else {
							src = biscuit.WithSingularRootPublicKey(wrongPub)
						}
					} else {
						m := map[uint32]ed25519.PublicKey{}
						for k, v := range tb.keys {
							if v == 1 {
								m[k] = rightPub
							} else {
								m[k] = wrongPub
							}
						}
						var def *ed25519.PublicKey
						if tb.def == 1 {
							def = &rightPub
						} else if tb.def == 2 {
							def = &wrongPub
						}
						src = biscuit.WithRootPublicKeys(m, def)
						if id == nil {
							want = tb.def
						} else {
							want = tb.keys[*id]
						}
					}
					// the same projection value serves every token a verifier sees: before this token it
					// is shown companions with other identifiers (absent, 0, the token's id + 1)
					if creation == 1 {
						for _, c := range companions {
							c.AuthorizerFor(src, hx.LongLimits)
						}
					}
					_, err := tok.AuthorizerFor(src, hx.LongLimits)
					noKey := err != nil && errors.Is(err, biscuit.ErrNoPublicKeyAvailable)
					var obs string
					switch {
					case err == nil:
						obs = "verified"
					case noKey:
						obs = "no-public-key"
					default:
						obs = "rejected"
					}
					exp := []string{"no-public-key", "verified", "rejected"}[want]
					w.Class(exp)
					if obs != exp {
						w.Violate("C16:lookup:"+obs+"-instead-of-"+exp, human()+" table "+tb.name, fmt.Sprintf("%s (%v)", obs, err), exp)
						return
					}
				}
				if hist != "" {
					w.NontrivialByIndex()
				}
				if w.WantSample("hist") {
					w.Sample("hist", map[string]string{"case": human(), "tables": fmt.Sprint(len(c16Tables(id)))})
				}
			}}}
		},
	})
}
