package props

import (
	"encoding/json"
	"fmt"
	"strings"
	"sync"
	"sync/atomic"

	biscuit "github.com/biscuit-auth/biscuit-go/v2"
	"github.com/biscuit-auth/biscuit-go/v2/datalog"

	"verif/internal/hx"
	"verif/internal/refdl"
	rx "verif/internal/refexpr"
	"verif/internal/sup"
	"verif/internal/wire"
)

// C08 — tokens and blocks are immutable values. Explicit-state BFS over a
// growing family of tokens, builders and blocks. A state is the history that
// reaches it (live Go objects cannot be cloned: every successor is built by
// replaying the history on fresh objects with a deterministic RNG); states are
// merged by a canonical key computed from the harness's own model of the
// family (not from the implementation).

type c08Op struct {
	Kind string `json:"k"` // new, create, add, build, append, seal, reload
	A    int    `json:"a"` // token / builder index, or symbol count for "new"
	B    int    `json:"b"` // item index / block index
}

func (o c08Op) String() string {
	switch o.Kind {
	case "new":
		if o.B > 0 {
			return fmt.Sprintf("NewToken(%d fresh symbols, then %d appended blocks)", o.A, o.B)
		}
		return fmt.Sprintf("NewToken(%d fresh symbols)", o.A)
	case "create":
		return fmt.Sprintf("b%d=CreateBlock(t%d)", o.B, o.A)
	case "add":
		return fmt.Sprintf("Add(b%d,%s)", o.A, c08ItemNames[o.B])
	case "build":
		return fmt.Sprintf("k%d=Build(b%d)", o.B, o.A)
	case "append":
		return fmt.Sprintf("Append(t%d,k%d)", o.A, o.B)
	case "seal":
		return fmt.Sprintf("Seal(t%d)", o.A)
	case "reload":
		return fmt.Sprintf("Unmarshal(Serialize(t%d))", o.A)
	}
	return "?"
}

func histString(h []c08Op) string {
	s := make([]string, len(h))
	for i, o := range h {
		s[i] = o.String()
	}
	return strings.Join(s, " ; ")
}

var c08ItemNames = []string{"check if foo(1)", "check if bar(1)", `right("n1","read")`, `two("t1","t2")`}

func c08Item(i int) item {
	switch i {
	case 0:
		return itC(chk(q(atom("foo", rx.Int(1)))))
	case 1:
		return itC(chk(q(atom("bar", rx.Int(1)))))
	case 2:
		return itF(atom("right", rx.Str("n1"), sRead))
	}
	return itF(atom("two", rx.Str("t1"), rx.Str("t2")))
}

// c08Pre is the content of the j-th block appended before the history starts
// (non-initial start states: the block lists then have every capacity shape).
func c08Pre(j int) refdl.Block {
	return refdl.Block{Facts: []refdl.Atom{atom("pre", rx.Int(int64(j)))}}
}

// authority content with k fresh symbols (k = 0..5)
func c08Authority(k int) refdl.Block {
	if k == 0 {
		return refdl.Block{Facts: []refdl.Atom{fOpRead}}
	}
	var ts []rx.Val
	for j := 1; j < k; j++ {
		ts = append(ts, rx.Str(fmt.Sprintf("n%d", j)))
	}
	return refdl.Block{Facts: []refdl.Atom{atom("n0", ts...)}}
}

// ---- the model -------------------------------------------------------------------

type c08MTok struct {
	blocks []refdl.Block
	sealed bool
	origin string
}

type c08MBuilder struct {
	parent int
	items  []int
	built  bool
	builds int
}

type c08Model struct {
	toks     []c08MTok
	builders []c08MBuilder
	blocks   []struct {
		builder int
		content refdl.Block
		parent  int
	}
	addOrder []string
	// symFree: token 0 carries default symbols only; a builder created from it can be filled and
	// built again after a first Build (with custom symbols the library's Build cannot be repeated)
	symFree bool
}

func (m *c08Model) key() string {
	var b strings.Builder
	for _, t := range m.toks {
		fmt.Fprintf(&b, "T[%s|%v|%s]", blocksString(t.blocks), t.sealed, t.origin)
	}
	for _, x := range m.builders {
		fmt.Fprintf(&b, "B[%d|%v|%v|%d]", x.parent, x.items, x.built, x.builds)
	}
	for _, k := range m.blocks {
		fmt.Fprintf(&b, "K[%d]", k.builder)
	}
	fmt.Fprintf(&b, "O%v", m.addOrder)
	return b.String()
}

const (
	c08MaxTokens   = 4
	c08MaxBuilders = 2
)

func (m *c08Model) enabled() []c08Op {
	var out []c08Op
	if len(m.builders) < c08MaxBuilders {
		for ti, t := range m.toks {
			if !t.sealed {
				out = append(out, c08Op{"create", ti, len(m.builders)})
			}
		}
	}
	for bi, b := range m.builders {
		if b.built {
			// a built builder is filled further and built once more (only where the library supports it)
			if m.symFree && b.parent == 0 && b.builds < 2 {
				if len(b.items) < 3 {
					for it := 0; it < 4; it++ {
						dup := false
						for _, x := range b.items {
							if x == it {
								dup = true
							}
						}
						if !dup {
							out = append(out, c08Op{"add", bi, it})
						}
					}
				}
				out = append(out, c08Op{"build", bi, len(m.blocks)})
			}
			continue
		}
		if len(b.items) < 2 {
			for it := 0; it < 4; it++ {
				dup := false
				for _, x := range b.items {
					if x == it {
						dup = true
					}
				}
				if !dup {
					out = append(out, c08Op{"add", bi, it})
				}
			}
		}
		out = append(out, c08Op{"build", bi, len(m.blocks)})
	}
	if len(m.toks) < c08MaxTokens {
		for ki, k := range m.blocks {
			// a block is appended to the token its builder was created from, or to a copy of it
			for ti, t := range m.toks {
				if t.sealed {
					continue
				}
				if ti == k.parent || blocksString(t.blocks) == blocksString(m.toks[k.parent].blocks) {
					out = append(out, c08Op{"append", ti, ki})
				}
			}
		}
		for ti, t := range m.toks {
			if !t.sealed {
				out = append(out, c08Op{"seal", ti, 0})
			}
			out = append(out, c08Op{"reload", ti, 0})
		}
	}
	return out
}

func (m *c08Model) apply(o c08Op) {
	switch o.Kind {
	case "new":
		bl := []refdl.Block{c08Authority(o.A)}
		for j := 0; j < o.B; j++ {
			bl = append(bl, c08Pre(j))
		}
		m.toks = append(m.toks, c08MTok{blocks: bl, origin: "new"})
		m.symFree = o.A == 0 && o.B == 0
	case "create":
		m.builders = append(m.builders, c08MBuilder{parent: o.A})
	case "add":
		m.builders[o.A].items = append(m.builders[o.A].items, o.B)
		m.addOrder = append(m.addOrder, fmt.Sprintf("%d:%d", o.A, o.B))
	case "build":
		m.builders[o.A].built = true
		m.builders[o.A].builds++
		var its []item
		for _, i := range m.builders[o.A].items {
			its = append(its, c08Item(i))
		}
		m.blocks = append(m.blocks, struct {
			builder int
			content refdl.Block
			parent  int
		}{o.A, blockOf(its), m.builders[o.A].parent})
	case "append":
		p := m.toks[o.A]
		m.toks = append(m.toks, c08MTok{blocks: append(append([]refdl.Block{}, p.blocks...), m.blocks[o.B].content), origin: fmt.Sprintf("append(t%d,k%d)", o.A, o.B)})
	case "seal":
		p := m.toks[o.A]
		m.toks = append(m.toks, c08MTok{blocks: p.blocks, sealed: true, origin: fmt.Sprintf("seal(t%d)", o.A)})
	case "reload":
		p := m.toks[o.A]
		m.toks = append(m.toks, c08MTok{blocks: p.blocks, sealed: p.sealed, origin: fmt.Sprintf("reload(t%d)", o.A)})
	}
}

// ---- the implementation side --------------------------------------------------------

type c08World struct {
	toks     []*biscuit.Biscuit
	builders []biscuit.BlockBuilder
	blocks   []*biscuit.Block
	born     []string // observation of each token when it was created
	// one decoder value for the whole history, as a service would keep one around (the
	// observation tuple reloads with the package-level Unmarshal)
	decoder *biscuit.Unmarshaler
}

var c08Panel = []c09Panel{
	{refdl.Block{Facts: []refdl.Atom{fOpRead}}, []refdl.Policy{allow(qTrue)}},
	{refdl.Block{Facts: []refdl.Atom{atom("foo", rx.Int(1))}}, []refdl.Policy{allow(qTrue)}},
	{refdl.Block{Facts: []refdl.Atom{atom("bar", rx.Int(1)), atom("foo", rx.Int(1))}}, []refdl.Policy{deny(q(atom("two", vx, vy))), allow(q(atom("right", vx, sRead)))}},
}

// c08Observe is the observation tuple of the property; computing it performs
// every read-only operation of the alphabet on the token.
func c08Observe(t *biscuit.Biscuit) string {
	var o []string
	o = append(o, "String="+t.String())
	o = append(o, "Code="+strings.Join(t.Code(), "|"))
	ser, err := t.Serialize()
	if err != nil {
		return "Serialize error: " + err.Error()
	}
	o = append(o, fmt.Sprintf("Serialize=%x", ser))
	re, err := biscuit.Unmarshal(ser)
	if err != nil {
		o = append(o, "Unmarshal error: "+err.Error())
	} else {
		o = append(o, "Reloaded="+re.String())
	}
	o = append(o, fmt.Sprintf("RevocationIds=%x", t.RevocationIds()))
	id, gerr := t.GetBlockID(hx.Fact(atom("lookup", rx.Str("never-seen-1"), rx.Str("n1"))))
	o = append(o, fmt.Sprintf("GetBlockID=%d,%v", id, gerr))
	id, gerr = t.GetBlockID(hx.Fact(atom("right", rx.Str("never-seen-2"), sRead)))
	o = append(o, fmt.Sprintf("GetBlockID2=%d,%v", id, gerr))
	// every name and top-level string known to the token, an unseen string only inside a set
	id, gerr = t.GetBlockID(hx.Fact(atom("right", sRead, rx.SetOf(rx.Str("never-seen-3"), sRead))))
	o = append(o, fmt.Sprintf("GetBlockID3=%d,%v", id, gerr))
	pub, _ := hx.Keys(1)
	for pi, p := range c08Panel {
		var a biscuit.Authorizer
		var err error
		if pi == 0 {
			// signature verification once per observation; the other panel entries reuse the verdict
			a, err = t.AuthorizerFor(biscuit.WithSingularRootPublicKey(pub), hx.LongLimits)
		} else {
			a, err = biscuit.NewVerifier(t, hx.LongLimits)
		}
		if err != nil {
			o = append(o, fmt.Sprintf("panel%d=rejected:%v", pi, err))
			continue
		}
		hx.Load(a, p.blk, p.pol)
		e := a.Authorize()
		o = append(o, fmt.Sprintf("panel%d=%s%v", pi, hx.Classify(e), hx.FailedChecks(e)))
	}
	o = append(o, fmt.Sprintf("BlockCount=%d", t.BlockCount()))
	return strings.Join(o, "\x00")
}

func firstDiff(a, b string) string {
	la, lb := strings.Split(a, "\x00"), strings.Split(b, "\x00")
	for i := 0; i < len(la) && i < len(lb); i++ {
		if la[i] != lb[i] {
			name := strings.SplitN(la[i], "=", 2)[0]
			return name
		}
	}
	return "length"
}

type c08Fail struct {
	sig, got, want string
}

// c08Replay executes a history on fresh objects. With observeEvery, every read-only
// operation is performed on every live token after every step (and compared);
// otherwise only once at the end.
func c08Replay(h []c08Op, observeEvery bool) (*c08Model, *c08Fail) {
	m := &c08Model{}
	wd := &c08World{decoder: &biscuit.Unmarshaler{Symbols: &datalog.SymbolTable{}}}
	_, priv := hx.Keys(1)
	pub, _ := hx.Keys(1)
	_ = pub
	for step, o := range h {
		seed := uint64(1000 + step*17)
		var nt *biscuit.Biscuit
		var err error
		switch o.Kind {
		case "new":
			b := biscuit.NewBuilder(priv, biscuit.WithRNG(hx.NewRNG(seed)))
			if err = hx.FillBuilder(b, c08Authority(o.A)); err == nil {
				nt, err = b.Build()
			}
			for j := 0; j < o.B && err == nil; j++ {
				bb := nt.CreateBlock()
				if err = hx.FillBlock(bb, c08Pre(j)); err == nil {
					nt, err = nt.Append(hx.NewRNG(seed+uint64(j)+1), bb.Build())
				}
			}
		case "create":
			wd.builders = append(wd.builders, wd.toks[o.A].CreateBlock())
		case "add":
			var blk refdl.Block
			c08Item(o.B).addTo(&blk)
			// two routes into a builder, alternating with the builder's index and the pass: one Add call per
			// element, or one AddBlock call with a parsed block
			if (o.A+map[bool]int{false: 0, true: 1}[observeEvery])%2 == 0 {
				err = hx.FillBlockParsed(wd.builders[o.A], blk)
			} else {
				err = hx.FillBlock(wd.builders[o.A], blk)
			}
		case "build":
			wd.blocks = append(wd.blocks, wd.builders[o.A].Build())
		case "append":
			nt, err = wd.toks[o.A].Append(hx.NewRNG(seed), wd.blocks[o.B])
		case "seal":
			nt, err = wd.toks[o.A].Seal(hx.NewRNG(seed))
		case "reload":
			var ser []byte
			ser, err = wd.toks[o.A].Serialize()
			if err == nil {
				nt, err = wd.decoder.Unmarshal(ser)
			}
		}
		if err != nil {
			return m, &c08Fail{"C08:operation-failed:" + o.Kind, fmt.Sprintf("step %d %s: %v", step, o, err), "the operation succeeds"}
		}
		m.apply(o)
		if nt != nil {
			wd.toks = append(wd.toks, nt)
			// content at creation: the independent decoder must find the model's blocks
			ser, err := nt.Serialize()
			if err != nil {
				return m, &c08Fail{"C08:serialize-failed", err.Error(), "bytes"}
			}
			env, err := wire.DecodeEnvelope(ser)
			if err != nil {
				return m, &c08Fail{"C08:undecodable", err.Error(), "decodable"}
			}
			var wb []*wire.Block
			for _, sb := range append([]wire.SignedBlock{env.Authority}, env.Blocks...) {
				b, err := wire.DecodeBlock(sb.Block)
				if err != nil {
					return m, &c08Fail{"C08:undecodable-block", err.Error(), "decodable"}
				}
				wb = append(wb, b)
			}
			want := m.toks[len(m.toks)-1]
			got, err := wire.ResolveChain(wb)
			if err != nil {
				return m, &c08Fail{"C08:content-at-creation:" + o.Kind, fmt.Sprintf("t%d (%s): %v", len(wd.toks)-1, want.origin, err), blocksString(want.blocks)}
			}
			if blocksString(got) != blocksString(want.blocks) {
				return m, &c08Fail{"C08:content-at-creation:" + o.Kind, fmt.Sprintf("t%d (%s) carries %s", len(wd.toks)-1, want.origin, blocksString(got)), blocksString(want.blocks)}
			}
			if (env.Proof.Final != nil) != want.sealed {
				return m, &c08Fail{"C08:sealedness-at-creation", fmt.Sprint(env.Proof.Final != nil), fmt.Sprint(want.sealed)}
			}
			born := c08Observe(nt)
			wd.born = append(wd.born, born)
			// the token in memory and the token reloaded from its own bytes are the same value
			if re, err := biscuit.Unmarshal(ser); err == nil {
				if rb := c08Observe(re); rb != born {
					return m, &c08Fail{"C08:in-memory-token-differs-from-its-bytes:" + firstDiff(born, rb) + "-after-" + o.Kind, fmt.Sprintf("t%d (%s) in memory:\n%s", len(wd.toks)-1, want.origin, strings.ReplaceAll(born, "\x00", "\n")), "reloaded from its own serialization:\n" + strings.ReplaceAll(rb, "\x00", "\n")}
				}
			}
		}
		if observeEvery || step == len(h)-1 {
			for ti, t := range wd.toks {
				now := c08Observe(t)
				if now != wd.born[ti] {
					what := firstDiff(now, wd.born[ti])
					return m, &c08Fail{fmt.Sprintf("C08:token-changed:%s-after-%s", what, o.Kind), fmt.Sprintf("t%d (%s) after step %d %s:\n%s", ti, m.toks[ti].origin, step, o, strings.ReplaceAll(now, "\x00", "\n")), strings.ReplaceAll(wd.born[ti], "\x00", "\n")}
				}
			}
		}
	}
	return m, nil
}

func c08Search(c *sup.Ctx, name string, depth int, observeEvery bool) {
	threads := c.Threads()
	seen := map[string]bool{}
	var frontier [][]c08Op
	for k := 0; k <= 5; k++ {
		frontier = append(frontier, []c08Op{{"new", k, 0}})
	}
	// non-initial start states: tokens that already carry 1..4 appended blocks
	for n := 1; n <= 4; n++ {
		frontier = append(frontier, []c08Op{{"new", 2, n}})
	}
	frontier = append(frontier, []c08Op{{"new", 0, 3}}, []c08Op{{"new", 3, 3}})
	var states, transitions int64
	var ws []*sup.W
	// check runs the representatives of one level in parallel and returns the ones that hold
	check := func(level [][]c08Op, d int) [][]c08Op {
		ok := make([]bool, len(level))
		var idx int64 = -1
		var wg sync.WaitGroup
		for t := 0; t < threads; t++ {
			wg.Add(1)
			w := c.NewW(name)
			ws = append(ws, w)
			go func() {
				defer wg.Done()
				for {
					k := atomic.AddInt64(&idx, 1)
					if k >= int64(len(level)) {
						return
					}
					if c.Expired() {
						w.Stats().Exhaustive = false
						return
					}
					nh := level[k]
					b, _ := json.Marshal(nh)
					if len(b) < 900 {
						w.Mark(0, string(b))
					}
					w.SetCase(nh)
					var f *c08Fail
					if r, stack := sup.Catch(func() { _, f = c08Replay(nh, observeEvery) }); r != nil {
						w.Class("panic")
						w.Violate("C08:panic:"+sup.PanicSig(stack), histString(nh), fmt.Sprint(r), "no panic")
						continue
					}
					if f != nil {
						w.Class("violation")
						w.Violate(f.sig, histString(nh), f.got, f.want)
						continue // a broken state is not extended
					}
					o := nh[len(nh)-1]
					w.Class(fmt.Sprintf("depth-%d:%s", d, o.Kind))
					if d > 1 {
						w.NontrivialByIndex()
					}
					if w.WantSample(o.Kind) {
						w.Sample(o.Kind, histString(nh))
					}
					ok[k] = true
				}
			}()
		}
		wg.Wait()
		var out [][]c08Op
		for k, h := range level {
			if ok[k] {
				out = append(out, h)
			}
		}
		return out
	}
	for _, h := range frontier {
		m := &c08Model{}
		m.apply(h[0])
		seen[m.key()] = true
	}
	states += int64(len(frontier))
	frontier = check(frontier, 1)
	for d := 2; d <= depth+1 && !c.Expired(); d++ {
		// phase 1 (sequential, model only): successors of the level, one representative per
		// canonical key - the first in the deterministic order of (parent, enabled operation)
		var level [][]c08Op
		for _, h := range frontier {
			m := &c08Model{}
			for _, o := range h {
				m.apply(o)
			}
			for _, o := range m.enabled() {
				transitions++
				nm := &c08Model{}
				for _, x := range h {
					nm.apply(x)
				}
				nm.apply(o)
				k := nm.key()
				if seen[k] {
					continue
				}
				seen[k] = true
				level = append(level, append(append([]c08Op{}, h...), o))
			}
		}
		states += int64(len(level))
		// phase 2 (parallel): replay every representative on the real library
		frontier = check(level, d)
	}
	for i, w := range ws {
		if i == 0 {
			w.Stats().States = states
			w.Stats().Transitions = transitions
			w.Stats().MaxDepth = int64(depth + 1)
			w.Stats().Bound = fmt.Sprintf("all operation histories of length <= %d (<= %d tokens, <= %d builders, <= 2 items per builder)", depth+1, c08MaxTokens, c08MaxBuilders)
		}
		c.Merge(w)
	}
}

func init() {
	register(&sup.Check{
		ID:        "C08",
		Level:     "model_checking",
		Technique: "explicit-state breadth-first search over operation histories of a growing family of tokens, block builders and built blocks; every state reached by replaying its history on the real library; invariants: observation stability of every live token and wire-decoded content at creation against the harness's model",
		Rule:      "operations: NewToken (authority with 0..5 fresh symbols: every capacity shape of the symbol slice), CreateBlock(t), Add(builder, one of 4 items: two with different fresh symbols, one reusing a parent symbol, one with two fresh symbols), Build(builder), Append(t, block), Seal(t), Serialize+Unmarshal(t); bounds <= 4 tokens, <= 2 builders, <= 2 items per builder; histories up to length 7 (quick) / 9 (thorough). States are merged by a canonical key of the harness's model (family tree with contents, builder contents, the global order of Add operations); every distinct state is replayed on fresh objects. Invariants per state: (a) every live token's observation tuple (String, Code, Serialize bytes, reloaded String, RevocationIds, GetBlockID of unseen facts, BlockCount, AuthorizerFor+Authorize on a 3-authorizer panel) equals the tuple recorded at its creation - computing it performs every read-only operation on every token; (b) the independently decoded content of a new token equals the model (parent's blocks plus exactly the items its builder received). Two passes: read-only operations after every step, and only at the end of the history. Non-trivial = every state beyond the initial ones.",
		Assume:    []string{"merging histories with equal model state is sound for the invariants checked: a divergence from the model is reported in the first state where it is observable; the order of Add operations, on which symbol-table aliasing depends, is part of the key", "RNG streams are deterministic per step, so replays are reproducible"},
		Spaces: func(c *sup.Ctx) []*sup.Space {
			depth := sup.Pick(c, 6, 8)
			replayMode := func(every bool) func(raw json.RawMessage, w *sup.W) {
				return func(raw json.RawMessage, w *sup.W) {
					var h []c08Op
					if json.Unmarshal(raw, &h) != nil {
						return
					}
					w.SetCase(h)
					var f *c08Fail
					if r, stack := sup.Catch(func() { _, f = c08Replay(h, every) }); r != nil {
						w.Violate("C08:panic:"+sup.PanicSig(stack), histString(h), fmt.Sprint(r), "no panic")
						return
					}
					if f != nil {
						w.Violate(f.sig, histString(h), f.got, f.want)
					}
				}
			}
			return []*sup.Space{
				c08SiblingSpace(replayMode(false)),
				{Name: "family-bfs-observe-after-every-step", RunAll: func(c *sup.Ctx) { c08Search(c, "family-bfs-observe-after-every-step", depth, true) }, ReplayCase: replayMode(true)},
				{Name: "family-bfs-observe-at-end", RunAll: func(c *sup.Ctx) { c08Search(c, "family-bfs-observe-at-end", depth-1, false) }, ReplayCase: replayMode(false)},
			}
		},
	})
}
