package props

import (
	"fmt"
	"strings"
	"time"

	"github.com/biscuit-auth/biscuit-go/v2/datalog"

	"verif/internal/alpha"
	"verif/internal/dlx"
	"verif/internal/refdl"
	rx "verif/internal/refexpr"
	"verif/internal/sup"
)

// Programs assembled through World.Clone (the way the authorizer builds one
// world per block): a base world with 0..4 facts and 0..4 rules is cloned
// twice, each clone receives one more fact and one more rule, in every
// interleaving of the four additions, and each clone is then run. Every clone
// must end with the least model of exactly what IT was given.
func c05CloneSpace() *sup.Space {
	X := alpha.X
	p := func(n int64) refdl.Atom { return refdl.A("p", rx.Int(n)) }
	baseFacts := []refdl.Atom{p(0), p(1), p(2), p(3)}
	baseRules := []refdl.Rule{
		{Head: refdl.A("q", X), Body: []refdl.Atom{refdl.A("p", X)}},
		{Head: refdl.A("r", X, X), Body: []refdl.Atom{refdl.A("q", X)}},
		{Head: refdl.A("z"), Body: []refdl.Atom{refdl.A("p", rx.Int(1))}},
		{Head: refdl.A("p", rx.Int(9)), Body: []refdl.Atom{refdl.A("z")}},
	}
	extraFacts := [2]refdl.Atom{p(100), p(200)}
	extraRules := [2]refdl.Rule{
		{Head: refdl.A("only_a", X), Body: []refdl.Atom{refdl.A("p", X)}},
		{Head: refdl.A("only_b", X), Body: []refdl.Atom{refdl.A("p", X)}},
	}
	// interleavings of (A.fact, A.rule) with (B.fact, B.rule), each clone's own order kept or swapped
	var orders [][]int // entries: 0 A.fact, 1 A.rule, 2 B.fact, 3 B.rule
	var perm func(cur []int, used int)
	perm = func(cur []int, used int) {
		if len(cur) == 4 {
			orders = append(orders, append([]int{}, cur...))
			return
		}
		for k := 0; k < 4; k++ {
			if used&(1<<uint(k)) == 0 {
				perm(append(cur, k), used|1<<uint(k))
			}
		}
	}
	perm(nil, 0)
	size := int64(5 * 5 * len(orders) * 2)
	return &sup.Space{Name: "programs-assembled-through-clone", Size: func(*sup.Ctx) int64 { return size }, Run: func(i int64, w *sup.W) {
		runBFirst := i%2 == 1
		i /= 2
		ord := orders[i%int64(len(orders))]
		i /= int64(len(orders))
		nf, nr := int(i%5), int(i/5)
		syms := dlx.NewSyms()
		base := datalog.NewWorld(datalog.WithMaxDuration(time.Hour), datalog.WithMaxFacts(100000), datalog.WithMaxIterations(100000))
		given := [2]refdl.Set{{}, {}}
		var rules [2][]refdl.Rule
		for _, f := range baseFacts[:nf] {
			base.AddFact(syms.Fact(f))
			given[0].Add(f)
			given[1].Add(f)
		}
		for _, r := range baseRules[:nr] {
			base.AddRule(syms.Rule(r))
			rules[0], rules[1] = append(rules[0], r), append(rules[1], r)
		}
		clones := [2]*datalog.World{base.Clone(), base.Clone()}
		var desc []string
		for _, step := range ord {
			who := step / 2
			if step%2 == 0 {
				clones[who].AddFact(syms.Fact(extraFacts[who]))
				given[who].Add(extraFacts[who])
				desc = append(desc, fmt.Sprintf("%c.AddFact(%s)", 'A'+who, extraFacts[who]))
			} else {
				clones[who].AddRule(syms.Rule(extraRules[who]))
				rules[who] = append(rules[who], extraRules[who])
				desc = append(desc, fmt.Sprintf("%c.AddRule(%s)", 'A'+who, extraRules[who]))
			}
		}
		human := fmt.Sprintf("base world with %d facts and %d rules; A, B := base.Clone(), base.Clone(); %s; run %s first", nf, nr, strings.Join(desc, "; "), map[bool]string{false: "A", true: "B"}[runBFirst])
		runOrder := []int{0, 1}
		if runBFirst {
			runOrder = []int{1, 0}
		}
		for _, who := range runOrder {
			tab := syms.Tab
			err := clones[who].Run(&tab)
			syms.Tab = tab
			want, _, _ := refdl.Fixpoint(given[who], rules[who])
			if err != nil {
				w.Class("unexpected-error")
				w.Violate("clone:unexpected-error", human, err.Error(), "nil")
				return
			}
			gs, dups, berr := syms.BackSet(clones[who].Facts())
			if berr != nil || dups > 0 {
				w.Class("bad-result")
				w.Violate("clone:bad-fact-store", human, fmt.Sprintf("%v, %d duplicates", berr, dups), want.String())
				return
			}
			if !gs.Equal(want) {
				w.Class("wrong-fixpoint")
				w.Violate("clone:wrong-fixpoint-in-a-cloned-world", fmt.Sprintf("%s; world %c", human, 'A'+who), gs.String(), want.String())
				return
			}
		}
		// the base world was not given anything after the clones were taken
		tab := syms.Tab
		if err := base.Run(&tab); err == nil {
			wantBase, _, _ := refdl.Fixpoint(refdl.NewSet(baseFacts[:nf]...), baseRules[:nr])
			if gs, _, berr := syms.BackSet(base.Facts()); berr != nil || !gs.Equal(wantBase) {
				w.Class("wrong-fixpoint")
				w.Violate("clone:base-world-changed-by-its-clones", human, gs.String(), wantBase.String())
				return
			}
		}
		w.Class("least-model-of-what-each-clone-was-given")
		w.NontrivialByIndex()
		if w.WantSample("clone") {
			w.Sample("clone", map[string]string{"case": human})
		}
	}}
}
