package props

import (
	"verif/internal/refdl"
	rx "verif/internal/refexpr"
	"verif/internal/sup"
)

// C04 — the verdict follows the decision procedure. Four sub-scopes, each a
// full product (DESIGN §4-C04).

// --- S1: policy logic ----------------------------------------------------------

var c04PolAtoms = []string{"a", "b", "c", "d"}

// c04Policies: {allow,deny} x {a, b, c, d, true, a or b}
var c04Policies = func() []refdl.Policy {
	var qs [][]refdl.Rule
	for _, n := range c04PolAtoms {
		qs = append(qs, []refdl.Rule{q(atom(n))})
	}
	qs = append(qs, []refdl.Rule{qTrue})
	qs = append(qs, []refdl.Rule{q(atom("a")), q(atom("b"))})
	var out []refdl.Policy
	for _, x := range qs {
		out = append(out, allow(x...))
	}
	for _, x := range qs {
		out = append(out, deny(x...))
	}
	return out
}()

func policyLists(pols []refdl.Policy, max int) [][]refdl.Policy {
	out := [][]refdl.Policy{{}}
	prev := [][]refdl.Policy{{}}
	for l := 1; l <= max; l++ {
		var cur [][]refdl.Policy
		for _, p := range prev {
			for _, x := range pols {
				cur = append(cur, append(append([]refdl.Policy{}, p...), x))
			}
		}
		out = append(out, cur...)
		prev = cur
	}
	return out
}

func c04S1(c *sup.Ctx) *sup.Space {
	lists := policyLists(c04Policies, sup.Pick(c, 2, 3))
	// modes: 0 all checks pass, 1 authorizer check fails, 2 authority check fails, 3 block check fails, 4 no checks at all, 5 facts live in the authorizer
	// 6 authority [pass, fail], 7 authorizer [fail, pass], 8 block [pass, fail], 9 authority [pass, fail, pass]
	// 10, 11, 12: as 0, with a fact equal to the head every query carries (`query()`) in the authority block / the authorizer / a later block
	const modes = 13
	size := int64(len(lists)) * 16 * modes
	return &sup.Space{Name: "S1-policy-logic", Size: func(*sup.Ctx) int64 { return size }, Run: func(i int64, w *sup.W) {
		mode := int(i % modes)
		i /= modes
		truth := int(i % 16)
		pl := lists[i/16]
		var facts []refdl.Atom
		for k, n := range c04PolAtoms {
			if truth&(1<<uint(k)) != 0 {
				facts = append(facts, atom(n))
			}
		}
		s := refdl.Scenario{Policies: pl}
		if mode == 5 {
			s.Auth.Facts = facts
		} else {
			s.Authority.Facts = facts
		}
		pass, fail := chk(qTrue), chk(qFalse)
		switch mode {
		case 0, 5, 10, 11, 12:
			s.Auth.Checks = []refdl.Check{pass}
			s.Authority.Checks = []refdl.Check{pass}
			s.Blocks = []refdl.Block{{Checks: []refdl.Check{pass}}}
			switch mode {
			case 10:
				s.Authority.Facts = append(s.Authority.Facts, atom("query"))
			case 11:
				s.Auth.Facts = append(s.Auth.Facts, atom("query"))
			case 12:
				s.Blocks[0].Facts = []refdl.Atom{atom("query")}
			}
		case 1:
			s.Auth.Checks = []refdl.Check{pass, fail}
		case 2:
			s.Authority.Checks = []refdl.Check{fail, pass}
		case 3:
			s.Blocks = []refdl.Block{{Checks: []refdl.Check{pass}}, {Checks: []refdl.Check{fail}}}
		case 6:
			s.Authority.Checks = []refdl.Check{pass, fail}
		case 7:
			s.Auth.Checks = []refdl.Check{fail, pass}
		case 8:
			s.Blocks = []refdl.Block{{Checks: []refdl.Check{pass, fail}}, {Checks: []refdl.Check{pass}}}
		case 9:
			s.Authority.Checks = []refdl.Check{pass, fail, pass}
			s.Auth.Checks = []refdl.Check{pass, pass}
		}
		_, ref, ok := compareWithReference(w, s, "S1")
		if ok {
			w.Class(ref.Class)
			if len(pl) > 0 {
				w.NontrivialByIndex()
			}
			if w.WantSample(ref.Class) {
				w.Sample(ref.Class, map[string]string{"scenario": s.String(), "verdict": ref.Class})
			}
		}
	}}
}

// --- S2: check logic -------------------------------------------------------------

// a check is one of: [a] [b] [a or b] [b or a] [true] [false]
var c04CheckOpts = []refdl.Check{
	chk(q(atom("a"))), chk(q(atom("b"))), chk(q(atom("a")), q(atom("b"))), chk(q(atom("b")), q(atom("a"))), chk(qTrue), chk(qFalse),
}

func checkLists(max int) [][]refdl.Check {
	out := [][]refdl.Check{{}}
	for _, x := range c04CheckOpts {
		out = append(out, []refdl.Check{x})
	}
	if max >= 2 {
		for _, x := range c04CheckOpts {
			for _, y := range c04CheckOpts {
				out = append(out, []refdl.Check{x, y})
			}
		}
	}
	return out
}

func c04S2(c *sup.Ctx, name string, maxA, maxB int, lite bool) *sup.Space {
	la := checkLists(maxA) // authorizer and authority
	lb := checkLists(maxB) // block 1 and block 2
	pols := [][]refdl.Policy{{allow(qTrue)}, {deny(q(atom("b"))), allow(q(atom("a")))}, {}}
	// where a and b live: 0 absent, 1 authority, 2 authorizer, 3 block1, 4 block2
	places := []int{0, 1, 2, 3, 4}
	if lite {
		// lite: one policy list, facts absent / in the authority block / in block 1
		pols = pols[:1]
		places = []int{0, 1, 3}
	}
	np := int64(len(places))
	na, nb := int64(len(la)), int64(len(lb))
	size := na * na * nb * nb * np * np * int64(len(pols))
	return &sup.Space{Name: name, Size: func(*sup.Ctx) int64 { return size }, Run: func(i int64, w *sup.W) {
		pi := i % int64(len(pols))
		i /= int64(len(pols))
		wa, wb := places[i%np], places[i/np%np]
		i /= np * np
		c1 := la[i%na]
		i /= na
		c0 := la[i%na]
		i /= na
		b1 := lb[i%nb]
		b2 := lb[i/nb]
		s := refdl.Scenario{Policies: pols[pi]}
		s.Auth.Checks = c1
		s.Authority.Checks = c0
		s.Blocks = []refdl.Block{{Checks: b1}, {Checks: b2}}
		place := func(where int, a refdl.Atom) {
			switch where {
			case 1:
				s.Authority.Facts = append(s.Authority.Facts, a)
			case 2:
				s.Auth.Facts = append(s.Auth.Facts, a)
			case 3:
				s.Blocks[0].Facts = append(s.Blocks[0].Facts, a)
			case 4:
				s.Blocks[1].Facts = append(s.Blocks[1].Facts, a)
			}
		}
		place(wa, atom("a"))
		place(wb, atom("b"))
		_, ref, ok := compareWithReference(w, s, "S2")
		if ok {
			w.Class(ref.Class)
			if len(c0)+len(c1)+len(b1)+len(b2) > 0 {
				w.NontrivialByIndex()
			}
			if w.WantSample(ref.Class) {
				w.Sample(ref.Class, map[string]string{"scenario": s.String(), "verdict": ref.Class})
			}
		}
	}}
}

// --- S3: derivation ---------------------------------------------------------------

var (
	i0, i1 = rx.Int(0), rx.Int(1)
	vx, vy = rx.Var("x"), rx.Var("y")
)

var c04Facts = []refdl.Atom{atom("p", i0), atom("q", i0), atom("r", i0, i1), atom("p", i1)}

var c04Rules = []refdl.Rule{
	rule(atom("q", vx), atom("p", vx)),
	rule(atom("p", vx), atom("q", vx)),
	rule(atom("r", vx, vy), atom("r", vy, vx)),
	rule(atom("z"), atom("p", vx), atom("q", vx)),
	rule(atom("q", vy), atom("r", vx, vy)),
	rule(atom("p", vy), atom("r", vx, vy), atom("q", vx)),
	rule(atom("r", vx, vx), atom("q", vx)),
	rule(atom("z"), atom("r", vx, vx)),
	rule(atom("q", i1), atom("z")),
	{Head: atom("q", vx), Body: []refdl.Atom{atom("p", vx)}, Exprs: [][]rx.Op{binExpr(vx, rx.GreaterThan, i0)}},
	{Head: atom("z"), Body: []refdl.Atom{atom("p", vx)}, Exprs: [][]rx.Op{binExpr(vx, rx.Prefix, rx.Str("a"))}}, // uniformly failing expression
	rule(atom("p", vx), atom("p", vx)),
}

// the third probe has more body atoms than a one-fact scope has facts (one fact can match several atoms)
var c04Probes = []refdl.Rule{q(atom("q", i0)), q(atom("q", i1)), q(atom("p", vx), atom("p", vy), atom("p", i0)), q(atom("z")), q(atom("r", i1, i0)), q(atom("p", i1)), q(atom("r", vx, vx))}

func c04S3(c *sup.Ctx) *sup.Space {
	type placed struct {
		r     int
		where int // 0 authority, 1 authorizer, 2 block1
	}
	var ruleSets [][]placed
	ruleSets = append(ruleSets, nil)
	var singles []placed
	for r := range c04Rules {
		for wh := 0; wh < 3; wh++ {
			singles = append(singles, placed{r, wh})
			ruleSets = append(ruleSets, []placed{{r, wh}})
		}
	}
	if c.Thorough() {
		for _, a := range singles {
			for _, b := range singles {
				ruleSets = append(ruleSets, []placed{a, b})
			}
		}
	} else {
		// quick: pairs over the first 4 rules
		for _, a := range singles {
			for _, b := range singles {
				if a.r < 4 && b.r < 4 {
					ruleSets = append(ruleSets, []placed{a, b})
				}
			}
		}
	}
	probes := c04Probes
	if c.Quick() {
		probes = probes[:4]
	}
	nprobe := int64(len(probes))*4 + 1
	nrs := int64(len(ruleSets))
	size := 256 * nrs * nprobe * 2
	return &sup.Space{Name: "S3-derivation", Size: func(*sup.Ctx) int64 { return size }, Run: func(i int64, w *sup.W) {
		pol := i % 2
		i /= 2
		probe := i % nprobe
		i /= nprobe
		rs := ruleSets[i%nrs]
		fp := int(i / nrs) // base-4 placement of the 4 facts
		s := refdl.Scenario{Blocks: []refdl.Block{{}, {}}}
		for k, f := range c04Facts {
			switch (fp >> uint(2*k)) & 3 {
			case 1:
				s.Authority.Facts = append(s.Authority.Facts, f)
			case 2:
				s.Auth.Facts = append(s.Auth.Facts, f)
			case 3:
				s.Blocks[0].Facts = append(s.Blocks[0].Facts, f)
			}
		}
		for _, p := range rs {
			switch p.where {
			case 0:
				s.Authority.Rules = append(s.Authority.Rules, c04Rules[p.r])
			case 1:
				s.Auth.Rules = append(s.Auth.Rules, c04Rules[p.r])
			case 2:
				s.Blocks[0].Rules = append(s.Blocks[0].Rules, c04Rules[p.r])
			}
		}
		if probe > 0 {
			pr := probes[(probe-1)/4]
			switch (probe - 1) % 4 {
			case 0:
				s.Auth.Checks = []refdl.Check{chk(pr)}
			case 1:
				s.Authority.Checks = []refdl.Check{chk(pr)}
			case 2:
				s.Blocks[0].Checks = []refdl.Check{chk(pr)}
			case 3:
				s.Blocks[1].Checks = []refdl.Check{chk(pr)}
			}
		}
		if pol == 0 {
			s.Policies = []refdl.Policy{allow(qTrue)}
		} else {
			s.Policies = []refdl.Policy{deny(q(atom("z"))), allow(q(atom("q", i1)))}
		}
		_, ref, ok := compareWithReference(w, s, "S3")
		if ok {
			w.Class(ref.Class)
			if len(rs) > 0 && probe > 0 {
				w.NontrivialByIndex()
			}
			if w.WantSample(ref.Class) {
				w.Sample(ref.Class, map[string]string{"scenario": s.String(), "verdict": ref.Class})
			}
		}
	}}
}

// --- S4: symbols and expressions -------------------------------------------------

var c04Strs = []rx.Val{rx.Str("a"), rx.Str("b"), rx.Str("read"), rx.Str("x"), rx.Str("s")}

func c04S4(c *sup.Ctx) *sup.Space {
	ns := int64(len(c04Strs))
	// expression kinds applied to $x bound by s($x) and constant k
	kinds := []func(k rx.Val) []rx.Op{
		func(k rx.Val) []rx.Op { return binExpr(vx, rx.Equal, k) },
		func(k rx.Val) []rx.Op { return binExpr(vx, rx.Prefix, k) },
		func(k rx.Val) []rx.Op { return binExpr(vx, rx.Contains, k) },
		func(k rx.Val) []rx.Op {
			return []rx.Op{{Kind: rx.OpValue, V: vx}, {Kind: rx.OpUnary, U: rx.Length}, {Kind: rx.OpValue, V: rx.Int(1)}, {Kind: rx.OpBinary, B: rx.Equal}}
		},
		func(k rx.Val) []rx.Op { return binExpr(vx, rx.LessThan, rx.Int(1)) }, // uniformly failing on strings
		func(k rx.Val) []rx.Op { // ($x + k) == "ab": concatenation interns a new string during evaluation
			return []rx.Op{{Kind: rx.OpValue, V: vx}, {Kind: rx.OpValue, V: k}, {Kind: rx.OpBinary, B: rx.Add}, {Kind: rx.OpValue, V: rx.Str("ab")}, {Kind: rx.OpBinary, B: rx.Equal}}
		},
	}
	nk := int64(len(kinds))
	size := ns * ns * ns * 4 * ns * nk * 2
	return &sup.Space{Name: "S4-symbols-expressions", Size: func(*sup.Ctx) int64 { return size }, Run: func(i int64, w *sup.W) {
		pol := i % 2
		i /= 2
		kind := kinds[i%nk]
		i /= nk
		k := c04Strs[i%ns]
		i /= ns
		loc := i % 4
		i /= 4
		c1, c2, c3 := c04Strs[i%ns], c04Strs[i/ns%ns], c04Strs[i/ns/ns]
		s := refdl.Scenario{Blocks: []refdl.Block{{}, {}}}
		s.Authority.Facts = []refdl.Atom{atom("s", c1)}
		s.Auth.Facts = []refdl.Atom{atom("s", c2)}
		s.Blocks[0].Facts = []refdl.Atom{atom("s", c3)}
		s.Blocks[1].Facts = []refdl.Atom{atom("t", c1, c3)}
		ck := chk(qe([]refdl.Atom{atom("s", vx)}, kind(k)))
		switch loc {
		case 0:
			s.Auth.Checks = []refdl.Check{ck}
		case 1:
			s.Authority.Checks = []refdl.Check{ck}
		case 2:
			s.Blocks[0].Checks = []refdl.Check{ck}
		case 3:
			s.Blocks[1].Checks = []refdl.Check{ck}
		}
		if pol == 0 {
			s.Policies = []refdl.Policy{allow(qTrue)}
		} else {
			s.Policies = []refdl.Policy{deny(q(atom("s", rx.Str("b")))), allow(q(atom("s", rx.Str("a"))))}
		}
		_, ref, ok := compareWithReference(w, s, "S4")
		if ok {
			w.Class(ref.Class)
			w.NontrivialByIndex()
			if w.WantSample(ref.Class) {
				w.Sample(ref.Class, map[string]string{"scenario": s.String(), "verdict": ref.Class})
			}
		}
	}}
}

func init() {
	register(&sup.Check{
		ID:           "C04",
		Level:        "exploration",
		Technique:    "bounded-exhaustive enumeration of authorization scenarios on the real authorizer against a reference decision procedure",
		Rule:         "four full products: S1 all policy lists up to length 2/3 over 12 policies x 16 truth assignments x 6 check modes; S2 up to 1-2 checks per source (authorizer, authority, two blocks), 1-2 queries each, facts placed in every source; S3 4 facts placed in {absent, authority, authorizer, block} x up to 2 placed rules of a 12-rule alphabet (recursion, expressions, one uniformly failing) x a probe check in every source x 2 policy lists; S4 strings shared by authority/authorizer/blocks in every combination x 6 expression kinds x check location. Non-trivial = at least one policy (S1), one check (S2), a rule and a probe (S3); distinct by construction (one scenario per index).",
		Assume:       []string{"reference: internal/refdl.Decide (closure by naive least fixpoint, checks per scope, first matching policy)", "signature verification is not exercised here (NewVerifier); that is C01"},
		Procs:        func(string) int { return 16 },
		SingleThread: true,
		Spaces: func(c *sup.Ctx) []*sup.Space {
			// small spaces first: a deadline then cuts only into the large products
			sp := []*sup.Space{c04S5(), c04S6(c), c04S7(), c04S1(c), c04S4(c), c04S2(c, "S2-check-logic", 1, 1, false), c04S3(c)}
			if c.Thorough() {
				sp = append(sp, c04S2(c, "S2-check-logic-authorizer-authority-pairs", 2, 1, false), c04S2(c, "S2-check-logic-block-pairs", 1, 2, false))
			} else {
				sp = append(sp, c04S2(c, "S2-two-checks-per-source-lite", 2, 1, true), c04S2(c, "S2-two-checks-per-block-lite", 1, 2, true))
			}
			return sp
		},
	})
}
