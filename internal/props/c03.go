package props

import (
	"fmt"
	"strings"

	biscuit "github.com/biscuit-auth/biscuit-go/v2"

	"verif/internal/hx"
	"verif/internal/refdl"
	rx "verif/internal/refexpr"
	"verif/internal/sup"
)

// C03 — block scoping, decided differentially: the same token with and
// without a block's facts and rules, and with two blocks swapped.

// facts and rules a block can carry (no checks)
var c03Content = func() []item {
	var out []item
	for _, it := range c02Adversarial {
		if it.c == nil {
			out = append(out, it)
		}
	}
	// rules that compute with a set-valued authority fact (they read it, they must not change it)
	out = append(out,
		itR(refdl.Rule{Head: atom("narrowed"), Body: []refdl.Atom{atom("scopes", vx)}, Exprs: [][]rx.Op{{
			{Kind: rx.OpValue, V: vx}, {Kind: rx.OpValue, V: rx.SetOf(sWrite, rx.Str("admin"))}, {Kind: rx.OpBinary, B: rx.Intersection},
			{Kind: rx.OpUnary, U: rx.Length}, {Kind: rx.OpValue, V: rx.Int(2)}, {Kind: rx.OpBinary, B: rx.Equal}}}}),
		itR(refdl.Rule{Head: atom("widened", vx), Body: []refdl.Atom{atom("scopes", vx)}, Exprs: [][]rx.Op{{
			{Kind: rx.OpValue, V: vx}, {Kind: rx.OpValue, V: rx.SetOf(rx.Str("root"))}, {Kind: rx.OpBinary, B: rx.Union},
			{Kind: rx.OpValue, V: rx.Str("root")}, {Kind: rx.OpBinary, B: rx.Contains}}}}),
		// the result of one set operation is the operand of the next: $x.union(subset).intersection(smaller),
		// $x.intersection(prefix).union(new element)
		itR(refdl.Rule{Head: atom("chained"), Body: []refdl.Atom{atom("scopes", vx)}, Exprs: [][]rx.Op{{
			{Kind: rx.OpValue, V: vx}, {Kind: rx.OpValue, V: rx.SetOf(sWrite)}, {Kind: rx.OpBinary, B: rx.Union},
			{Kind: rx.OpValue, V: rx.SetOf(sWrite)}, {Kind: rx.OpBinary, B: rx.Intersection},
			{Kind: rx.OpUnary, U: rx.Length}, {Kind: rx.OpValue, V: rx.Int(1)}, {Kind: rx.OpBinary, B: rx.Equal}}}}),
		// a rule the engine refuses at evaluation (head variable not bound by the body): authorization fails,
		// and what the block carried must still be invisible to later queries on that authorizer
		itR(rule(atom("promoted", vy), atom("user", vx))),
		itR(refdl.Rule{Head: atom("rechained", vx), Body: []refdl.Atom{atom("scopes", vx)}, Exprs: [][]rx.Op{{
			{Kind: rx.OpValue, V: vx}, {Kind: rx.OpValue, V: rx.SetOf(sRead, sWrite)}, {Kind: rx.OpBinary, B: rx.Intersection},
			{Kind: rx.OpValue, V: rx.SetOf(rx.Str("root"))}, {Kind: rx.OpBinary, B: rx.Union},
			{Kind: rx.OpUnary, U: rx.Length}, {Kind: rx.OpValue, V: rx.Int(3)}, {Kind: rx.OpBinary, B: rx.Equal}}}}),
	)
	return out
}()

var c03ProbeQueries = []refdl.Rule{q(fRightW), q(fAdmin), q(fAllowedF), q(fOpWrite), q(fRightR), q(fResF), q(atom("right", vx, vy)), q(atom("query")),
	// a set-valued authority fact: a block's rule may read it, never change it
	qe([]refdl.Atom{atom("scopes", vx)}, binExpr(vx, rx.Contains, sRead))}

var c03Scopes = atom("scopes", rx.SetOf(sRead, sWrite, rx.Str("admin")))

// c03Filler: more than 32 facts at authority level (copy-on-write thresholds, slice growth)
var c03Filler = func() []refdl.Atom {
	var out []refdl.Atom
	for i := 0; i < 40; i++ {
		out = append(out, atom("filler", rx.Int(int64(i))))
	}
	return out
}()

// panel of Query rules: one per predicate that block content can produce
var c03QueryPanel = []refdl.Rule{
	rule(atom("out", vx, vy), atom("right", vx, vy)),
	rule(atom("out"), fAdmin),
	rule(atom("out", vx), atom("allowed", vx)),
	rule(atom("out", vx), atom("operation", vx)),
	rule(atom("out", vx), atom("resource", vx)),
	rule(atom("out", vx), atom("user", vx)),
	rule(atom("out", vx), atom("scopes", vx)),
}

type c03Obs struct {
	out    authOut
	before []string
	after  []string
}

// c03Observe authorizes and queries one token; the observation is what C03 compares.
func c03Observe(tok *biscuit.Biscuit, auth refdl.Block, pol []refdl.Policy) c03Obs {
	var o c03Obs
	a, err := hx.Authorizer(tok, auth, pol)
	if err != nil {
		o.out = authOut{Class: "authorizer-error", Err: err}
		return o
	}
	for _, qr := range c03QueryPanel {
		ks, err := hx.QuerySet(a, qr)
		if err != nil {
			o.before = append(o.before, "error")
		} else {
			o.before = append(o.before, hx.JoinKeys(ks))
		}
	}
	// a fresh authorizer for Authorize (Query evaluated the world already)
	a, _ = hx.Authorizer(tok, auth, pol)
	err = a.Authorize()
	o.out = authOut{Class: hx.Classify(err), Failed: hx.FailedChecks(err), Err: err}
	for _, qr := range c03QueryPanel {
		ks, err := hx.QuerySet(a, qr)
		if err != nil {
			o.after = append(o.after, "error")
		} else {
			o.after = append(o.after, hx.JoinKeys(ks))
		}
	}
	return o
}

func without(failed []string, block int) []string {
	var out []string
	p := fmt.Sprintf("block%d#", block)
	for _, f := range failed {
		if !strings.HasPrefix(f, p) {
			out = append(out, f)
		}
	}
	return out
}

func renumber(failed []string, a, b int) []string {
	var out []string
	pa, pb := fmt.Sprintf("block%d#", a), fmt.Sprintf("block%d#", b)
	for _, f := range failed {
		switch {
		case strings.HasPrefix(f, pa):
			out = append(out, pb+strings.TrimPrefix(f, pa))
		case strings.HasPrefix(f, pb):
			out = append(out, pa+strings.TrimPrefix(f, pb))
		default:
			out = append(out, f)
		}
	}
	sortStrings(out)
	return out
}

type c03Probe struct {
	q   int
	loc int // 0 authorizer check, 1 authority check, 2 other-block check, 3 allow policy, 4 deny policy
}

func init() {
	register(&sup.Check{
		ID:           "C03",
		Level:        "exploration",
		Technique:    "bounded-exhaustive differential enumeration of tokens with and without a block's facts/rules and with blocks swapped, on the real authorizer",
		Rule:         "full product of: block content X (up to 2 of 16 fact/rule items that restate or derive what policies and checks ask for) x position of the block (before or after a second block) x 1-2 probes (8 queries x 5 locations: authorizer check, authority check, the other block's check, allow policy, deny policy) x own checks of the block x 2 authority contents. Each case runs the variants: X kept / X removed (checks kept) / block check-free / block emptied / blocks swapped; compared on outcome class, failed-check list outside the block, and a 6-rule Query panel before and after Authorize. Non-trivial = X non-empty and at least one probe mentions a predicate X can produce; distinct by construction.",
		Assume:       []string{"the failed-check list is read from the error text (block and check index), an API observable; if it cannot be parsed both sides are empty and only the class is compared"},
		Procs:        func(string) int { return 16 },
		SingleThread: true,
		Spaces: func(c *sup.Ctx) []*sup.Space {
			contents := itemSets(c03Content, 2)
			quick := c.Quick()
			var probes [][]c03Probe
			var singles []c03Probe
			for qi := range c03ProbeQueries {
				for loc := 0; loc < 5; loc++ {
					singles = append(singles, c03Probe{qi, loc})
					probes = append(probes, []c03Probe{{qi, loc}})
				}
			}
			for i, a := range singles {
				for j, b := range singles {
					if j <= i {
						continue
					}
					if c.Quick() && (a.q >= 4 || b.q >= 4) {
						continue
					}
					probes = append(probes, []c03Probe{a, b})
				}
			}
			ownChecks := [][]refdl.Check{{}, {chk(q(fRightW))}, {chk(q(fAdmin), q(fAllowedF))}}
			authorities := []refdl.Block{{Facts: []refdl.Atom{fResF, fUser, c03Scopes}}, {Facts: append([]refdl.Atom{fRightR, c03Scopes}, c03Filler...), Rules: []refdl.Rule{rAllowed2}}}
			nc, np, no, na := int64(len(contents)), int64(len(probes)), int64(len(ownChecks)), int64(len(authorities))
			size := nc * np * no * na * 2 * 2
			return []*sup.Space{{Name: "block-content-invisible-elsewhere", Size: func(*sup.Ctx) int64 { return size }, Run: func(i int64, w *sup.W) {
				pos := int(i % 2) // 0: X-block first, other block second; 1: other block first
				i /= 2
				otherHasFact := i%2 == 1 // the other block also carries a fact of its own
				i /= 2
				authority := authorities[i%na]
				i /= na
				own := ownChecks[i%no]
				i /= no
				pr := probes[i%np]
				x := blockOf(contents[i/np])
				if quick && otherHasFact {
					// quick tier: the "other block carries a fact" dimension is crossed with the fact/rule items of
					// the adversarial alphabet only, not with the set-computing and failing rules (thorough: all)
					for _, r := range x.Rules {
						switch r.Head.Name {
						case "narrowed", "widened", "chained", "rechained", "promoted":
							w.Class("left-to-the-thorough-tier")
							return
						}
					}
				}
				auth := refdl.Block{Facts: []refdl.Atom{fOpRead}}
				var pol []refdl.Policy
				other := refdl.Block{}
				if otherHasFact {
					other.Facts = []refdl.Atom{atom("marker", rx.Str("other"))}
				}
				for _, p := range pr {
					qq := c03ProbeQueries[p.q]
					switch p.loc {
					case 0:
						auth.Checks = append(auth.Checks, chk(qq))
					case 1:
						authority.Checks = append(append([]refdl.Check{}, authority.Checks...), chk(qq))
					case 2:
						other.Checks = append(other.Checks, chk(qq))
					case 3:
						pol = append(pol, allow(qq))
					case 4:
						pol = append(pol, deny(qq))
					}
				}
				pol = append(pol, allow(qTrue))
				xb, ob := 1, 2 // block numbers of the X-block and the other block
				if pos == 1 {
					xb, ob = 2, 1
				}
				mk := func(xblock refdl.Block) []refdl.Block {
					if pos == 0 {
						return []refdl.Block{xblock, other}
					}
					return []refdl.Block{other, xblock}
				}
				withChecks := refdl.Block{Facts: x.Facts, Rules: x.Rules, Checks: own}
				variants := map[string][]refdl.Block{
					"a": mk(withChecks),                                  // as is
					"b": mk(refdl.Block{Checks: own}),                    // X removed, checks kept
					"d": mk(refdl.Block{Facts: x.Facts, Rules: x.Rules}), // check-free
					"e": mk(refdl.Block{}),                               // emptied
				}
				// swapped order of (a)
				if pos == 0 {
					variants["c"] = []refdl.Block{other, withChecks}
				} else {
					variants["c"] = []refdl.Block{withChecks, other}
				}
				obs := map[string]c03Obs{}
				for name, blocks := range variants {
					tok, err := cachedToken(w, authority, blocks)
					if err != nil {
						w.Class("build-error")
						return
					}
					obs[name] = c03Observe(tok, auth, pol)
				}
				human := func() string {
					return fmt.Sprintf("authority=%s block%d=X%s+checks%v block%d=%s authorizer=%s policies=%v", authority, xb, x, own, ob, other, auth, pol)
				}
				bad := func(sig, got, want string) {
					w.Class("scope-leak")
					w.Violate("C03:"+sig, human(), got, want)
				}
				d, e, a, b, cs := obs["d"], obs["e"], obs["a"], obs["b"], obs["c"]
				xFails := false
				for _, r := range x.Rules {
					xFails = xFails || r.Head.Name == "promoted"
				}
				switch {
				case xFails:
					// evaluating the block fails, so outcomes legitimately differ from the token without X;
					// the authorizer's own world, as Query shows it, must not
					switch {
					case !sameStrings(d.before, e.before) || !sameStrings(a.before, e.before):
						bad("query-before-authorize-sees-block", strings.Join(d.before, " ")+" / "+strings.Join(a.before, " "), strings.Join(e.before, " "))
					case !sameStrings(d.after, e.after):
						bad("query-after-failed-authorize-sees-block", strings.Join(d.after, " "), strings.Join(e.after, " "))
					case !sameStrings(a.after, e.after):
						bad("query-after-failed-authorize-sees-block", strings.Join(a.after, " "), strings.Join(e.after, " "))
					case !sameStrings(cs.after, e.after):
						bad("query-after-failed-authorize-sees-block", strings.Join(cs.after, " "), strings.Join(e.after, " "))
					default:
						w.Class("block-evaluation-fails:" + a.out.Class)
						w.NontrivialByIndex()
					}
				case d.out.Class != e.out.Class:
					bad("check-free-block-changes-outcome", "with X: "+d.out.String(), "without X: "+e.out.String())
				case !sameStrings(d.out.Failed, e.out.Failed):
					bad("check-free-block-changes-failed-checks", "with X: "+d.out.String(), "without X: "+e.out.String())
				case !sameStrings(d.before, e.before):
					bad("query-before-authorize-sees-block", strings.Join(d.before, " "), strings.Join(e.before, " "))
				case !sameStrings(d.after, e.after):
					bad("query-after-authorize-sees-block", strings.Join(d.after, " "), strings.Join(e.after, " "))
				case !sameStrings(without(a.out.Failed, xb), without(b.out.Failed, xb)):
					bad("block-content-changes-other-checks", "with X: "+a.out.String(), "without X: "+b.out.String())
				case len(own) == 0 && a.out.Class != b.out.Class:
					bad("block-content-changes-outcome", "with X: "+a.out.String(), "without X: "+b.out.String())
				case a.out.Class != cs.out.Class:
					bad("block-order-changes-outcome", "swapped: "+cs.out.String(), "original: "+a.out.String())
				case !sameStrings(renumber(cs.out.Failed, 1, 2), a.out.Failed):
					bad("block-order-changes-failed-checks", "swapped: "+cs.out.String(), "original: "+a.out.String())
				case !sameStrings(a.after, e.after):
					bad("query-after-authorize-sees-block", strings.Join(a.after, " "), strings.Join(e.after, " "))
				default:
					w.Class(a.out.Class)
					if len(x.Facts)+len(x.Rules) > 0 {
						w.NontrivialByIndex()
					}
					if w.WantSample(a.out.Class) {
						w.Sample(a.out.Class, map[string]string{"case": human(), "as-is": a.out.String(), "without-X": b.out.String(), "queries-after": strings.Join(a.after, " ")})
					}
				}
			}}}
		},
	})
}
