package props

import (
	"fmt"

	"github.com/alecthomas/participle/v2"
	biscuit "github.com/biscuit-auth/biscuit-go/v2"
	"github.com/biscuit-auth/biscuit-go/v2/parser"

	"verif/internal/gram"
	rx "verif/internal/refexpr"
	"verif/internal/sup"
)

// The exported grammar types used directly (participle.Build[parser.Rule] with
// parser.DefaultParserOptions, as the package's own tests do): one syntax tree
// converted several times with different bindings. Every conversion must give
// what a freshly parsed tree gives for those bindings.
func c14TreeSpace() *sup.Space {
	var texts []c14Text
	for _, t := range c14Frames() {
		if len(t.params) > 0 && (t.kind == "rule" || t.kind == "check" || t.kind == "policy") {
			texts = append(texts, t)
		}
	}
	// parameters inside expressions and inside a set (the frames only carry them in predicates)
	for _, e := range []*gram.Node{
		gram.Bin(rx.Equal, gram.Lf(gram.LVarX), gram.Lf(gram.LParam)),
		gram.Bin(rx.LessThan, gram.Bin(rx.Add, gram.Lf(gram.LParam), gram.Lf(gram.LInt)), gram.Lf(gram.LVarX)),
		gram.Bin(rx.Contains, gram.Lf(gram.Leaf{Toks: []string{"[", "1", ",", "{p}", "]"}, Val: rx.SetOf(rx.Int(1), rx.Int(42)), Param: "p"}), gram.Lf(gram.LVarX)),
	} {
		for _, t := range c14ExprFrames("param-in-expression", gram.Minimal(e)) {
			if t.kind == "rule" || t.kind == "check" || t.kind == "policy" {
				texts = append(texts, t)
			}
		}
	}
	bindings := []biscuit.Term{biscuit.Integer(42), biscuit.Integer(7), biscuit.String("other"), nil}
	names := []string{"42", "7", `"other"`, "unbound"}
	nb := int64(len(bindings))
	type conv func(text string, first, second parser.ParametersMap, shared bool) (string, error)
	convert := func(kind string) conv {
		return func(text string, first, second parser.ParametersMap, shared bool) (string, error) {
			render := func(x c14Parsed, err error) string {
				if err != nil {
					return "error"
				}
				s, rerr := c14Render(x)
				if rerr != nil {
					return "malformed: " + rerr.Error()
				}
				return s
			}
			switch kind {
			case "rule":
				p, err := participle.Build[parser.Rule](parser.DefaultParserOptions...)
				if err != nil {
					return "", err
				}
				tree, err := p.ParseString("rule", text)
				if err != nil {
					return "", err
				}
				if shared {
					tree.ToBiscuit(first)
				}
				r, err := tree.ToBiscuit(second)
				if err != nil {
					return "error", nil
				}
				return render(c14Parsed{rule: r}, nil), nil
			case "check":
				p, err := participle.Build[parser.Check](parser.DefaultParserOptions...)
				if err != nil {
					return "", err
				}
				tree, err := p.ParseString("check", text)
				if err != nil {
					return "", err
				}
				if shared {
					tree.ToBiscuit(first)
				}
				c, err := tree.ToBiscuit(second)
				if err != nil {
					return "error", nil
				}
				return render(c14Parsed{check: c}, nil), nil
			default:
				p, err := participle.Build[parser.Policy](parser.DefaultParserOptions...)
				if err != nil {
					return "", err
				}
				tree, err := p.ParseString("policy", text)
				if err != nil {
					return "", err
				}
				if shared {
					tree.ToBiscuit(first)
				}
				c, err := tree.ToBiscuit(second)
				if err != nil {
					return "error", nil
				}
				return render(c14Parsed{policy: c}, nil), nil
			}
		}
	}
	pm := func(k int) parser.ParametersMap {
		if bindings[k] == nil {
			return nil
		}
		return parser.ParametersMap{"p": bindings[k]}
	}
	return &sup.Space{Name: "one-syntax-tree-several-bindings", Size: func(*sup.Ctx) int64 { return int64(len(texts)) * nb * nb }, Run: func(i int64, w *sup.W) {
		first, second := int(i%nb), int(i/nb%nb)
		t := texts[i/nb/nb]
		text := gram.Join(t.toks, 0)
		human := fmt.Sprintf("%s %q: one syntax tree converted with {p} bound to %s, then to %s", t.kind, text, names[first], names[second])
		var got, want string
		var gerr, werr error
		if r, stack := sup.Catch(func() {
			got, gerr = convert(t.kind)(text, pm(first), pm(second), true)
			want, werr = convert(t.kind)(text, nil, pm(second), false)
		}); r != nil {
			w.Class("panic")
			w.Violate("C14:panic-in-parser:"+sup.PanicSig(stack), human, fmt.Sprint(r), "a result or an error")
			return
		}
		if gerr != nil || werr != nil {
			w.Class("grammar-entry-point-refuses-the-text")
			return
		}
		if got != want {
			w.Class("reused-tree-differs")
			w.Violate("C14:reused-syntax-tree-returns-another-result:"+t.kind, human, got, "a freshly parsed tree: "+want)
			return
		}
		w.Class("same-as-fresh-tree")
		if first != second {
			w.NontrivialByIndex()
		}
	}}
}
