package props

import (
	"crypto/ed25519"

	"verif/internal/wire"
)

type wire09Env = wire.Envelope

func edSign(k ed25519.PrivateKey, b *wire.SignedBlock) []byte {
	return ed25519.Sign(k, wire.BlockPayload(*b))
}

func sealWith(k ed25519.PrivateKey, x *wire.Envelope) wire.Proof {
	return wire.Proof{Present: true, Final: ed25519.Sign(k, wire.SealPayload(*lastBlock(x)))}
}
