package props

import (
	"fmt"
	"strings"

	biscuit "github.com/biscuit-auth/biscuit-go/v2"
	"github.com/biscuit-auth/biscuit-go/v2/parser"

	"verif/internal/gram"
	"verif/internal/hx"
	"verif/internal/refdl"
	rx "verif/internal/refexpr"
	"verif/internal/sup"
)

// C14 — the parser denotes the documented grammar and never panics.

func c14Parser(w *sup.W) parser.Parser {
	if p, ok := w.Local["parser"].(parser.Parser); ok {
		return p
	}
	p := parser.New()
	w.Local["parser"] = p
	return p
}

func c14Params(m map[string]rx.Val) parser.ParametersMap {
	if len(m) == 0 {
		return nil
	}
	out := parser.ParametersMap{}
	for k, v := range m {
		out[k] = hx.Term(v)
	}
	return out
}

// c14Text is one source text with its denotation.
type c14Text struct {
	kind    string // fact rule check policy block authorizer
	toks    []string
	params  map[string]rx.Val
	want    string // canonical rendering of the denotation ("" = no expectation)
	wantErr bool   // the statement requires an error
	label   string
}

type c14Parsed struct {
	fact   *biscuit.Fact
	rule   *biscuit.Rule
	check  *biscuit.Check
	policy *biscuit.Policy
	block  *biscuit.ParsedBlock
	auth   *biscuit.ParsedAuthorizer
}

func c14ParseText(p parser.Parser, kind, text string, params parser.ParametersMap) (c14Parsed, error) {
	var out c14Parsed
	var err error
	switch kind {
	case "fact":
		var f biscuit.Fact
		f, err = p.Fact(text, params)
		out.fact = &f
	case "rule":
		var r biscuit.Rule
		r, err = p.Rule(text, params)
		out.rule = &r
	case "check":
		var c biscuit.Check
		c, err = p.Check(text, params)
		out.check = &c
	case "policy":
		var x biscuit.Policy
		x, err = p.Policy(text, params)
		out.policy = &x
	case "block":
		var b biscuit.ParsedBlock
		b, err = p.Block(text, params)
		out.block = &b
	case "authorizer":
		var a biscuit.ParsedAuthorizer
		a, err = p.Authorizer(text, params)
		out.auth = &a
	}
	return out, err
}

func policyString(ps []refdl.Policy) string {
	var s []string
	for _, p := range ps {
		s = append(s, p.String())
	}
	return strings.Join(s, "; ")
}

// c14Render gives the canonical rendering of a parsed value (same form as the expectation).
func c14Render(x c14Parsed) (string, error) {
	switch {
	case x.fact != nil:
		a, err := hx.BackPred(x.fact.Predicate)
		return a.Key(), err
	case x.rule != nil:
		r, err := hx.BackRule(*x.rule)
		return r.String(), err
	case x.check != nil:
		c, err := hx.BackCheck(*x.check)
		return c.String(), err
	case x.policy != nil:
		p, err := hx.BackPolicy(*x.policy)
		return p.String(), err
	case x.block != nil:
		b, err := hx.BackBlock(*x.block)
		return b.String(), err
	case x.auth != nil:
		b, err := hx.BackBlock(x.auth.Block)
		if err != nil {
			return "", err
		}
		var ps []refdl.Policy
		for _, p := range x.auth.Policies {
			bp, err := hx.BackPolicy(p)
			if err != nil {
				return "", err
			}
			ps = append(ps, bp)
		}
		return b.String() + " policies " + policyString(ps), nil
	}
	return "", fmt.Errorf("nothing parsed")
}

var c14UseToken = func() *biscuit.Biscuit {
	t, err := hx.Token(1, 3, refdl.Block{Facts: []refdl.Atom{atom("p", rx.Int(7)), atom("p", rx.Str("abc"))}}, nil)
	if err != nil {
		panic(err)
	}
	return t
}()

// c14Use adds a successfully parsed element to a builder, a block builder and
// an authorizer (which converts it), and authorizes: none of this may panic.
func c14Use(x c14Parsed) {
	_, priv := hx.Keys(1)
	b := biscuit.NewBuilder(priv, biscuit.WithRNG(hx.NewRNG(1)))
	bb := c14UseToken.CreateBlock()
	a, _ := biscuit.NewVerifier(c14UseToken, hx.LongLimits)
	switch {
	case x.fact != nil:
		b.AddAuthorityFact(*x.fact)
		bb.AddFact(*x.fact)
		a.AddFact(*x.fact)
	case x.rule != nil:
		b.AddAuthorityRule(*x.rule)
		bb.AddRule(*x.rule)
		a.AddRule(*x.rule)
	case x.check != nil:
		b.AddAuthorityCheck(*x.check)
		bb.AddCheck(*x.check)
		a.AddCheck(*x.check)
	case x.policy != nil:
		a.AddPolicy(*x.policy)
	case x.block != nil:
		b.AddBlock(*x.block)
		bb.AddBlock(*x.block)
		a.AddBlock(*x.block)
	case x.auth != nil:
		a.AddAuthorizer(*x.auth)
	}
	if tok, err := b.Build(); err == nil {
		_ = tok.String()
		tok.Serialize()
	}
	bb.Build()
	a.Authorize()
	a.PrintWorld()
}

// c14Check runs one text through the parser and the oracle.
var c14Vias = []string{"Parser method", "FromString…WithParams", "FromString… (a fresh parser when there are parameters)", "Must() parser"}

// c14ParseVia parses through one of the package's entry points; they all denote the same function.
func c14ParseVia(via int, p parser.Parser, kind, text string, params parser.ParametersMap) (out c14Parsed, err error) {
	switch via {
	case 1, 2:
		if via == 2 && len(params) > 0 {
			return c14ParseText(parser.New(), kind, text, params)
		}
		switch kind {
		case "fact":
			var f biscuit.Fact
			if via == 2 {
				f, err = parser.FromStringFact(text)
			} else {
				f, err = parser.FromStringFactWithParams(text, params)
			}
			out.fact = &f
		case "rule":
			var r biscuit.Rule
			if via == 2 {
				r, err = parser.FromStringRule(text)
			} else {
				r, err = parser.FromStringRuleWithParams(text, params)
			}
			out.rule = &r
		case "check":
			var c biscuit.Check
			if via == 2 {
				c, err = parser.FromStringCheck(text)
			} else {
				c, err = parser.FromStringCheckWithParams(text, params)
			}
			out.check = &c
		case "policy":
			var x biscuit.Policy
			if via == 2 {
				x, err = parser.FromStringPolicy(text)
			} else {
				x, err = parser.FromStringPolicyWithParams(text, params)
			}
			out.policy = &x
		case "block":
			var b biscuit.ParsedBlock
			if via == 2 {
				b, err = parser.FromStringBlock(text)
			} else {
				b, err = parser.FromStringBlockWithParams(text, params)
			}
			out.block = &b
		case "authorizer":
			var a biscuit.ParsedAuthorizer
			if via == 2 {
				a, err = parser.FromStringAuthorizer(text)
			} else {
				a, err = parser.FromStringAuthorizerWithParams(text, params)
			}
			out.auth = &a
		}
		return out, err
	case 3:
		// the Must parser reports an error by panicking with it
		defer func() {
			if r := recover(); r != nil {
				e, ok := r.(error)
				if !ok {
					panic(r)
				}
				err = e
			}
		}()
		m := p.Must()
		switch kind {
		case "fact":
			f := m.Fact(text, params)
			out.fact = &f
		case "rule":
			r := m.Rule(text, params)
			out.rule = &r
		case "check":
			c := m.Check(text, params)
			out.check = &c
		case "policy":
			x := m.Policy(text, params)
			out.policy = &x
		case "block":
			b := m.Block(text, params)
			out.block = &b
		case "authorizer":
			a := m.Authorizer(text, params)
			out.auth = &a
		}
		return out, nil
	}
	return c14ParseText(p, kind, text, params)
}

func c14Check(w *sup.W, t c14Text, layout int) {
	via := layout / 10
	layout %= 10
	text := gram.Join(t.toks, layout)
	if layout == 2 && (t.kind == "block" || t.kind == "rule" || t.kind == "authorizer") {
		text = "// a comment, then the text\n" + text
	}
	human := fmt.Sprintf("%s %s: %q (layout %d) params %v", t.label, t.kind, text, layout, t.params)
	if via > 0 {
		human += " through " + c14Vias[via]
	}
	var parsed c14Parsed
	var err error
	if r, stack := sup.Catch(func() { parsed, err = c14ParseVia(via, c14Parser(w), t.kind, text, c14Params(t.params)) }); r != nil {
		w.Class("panic")
		w.Violate("C14:panic-in-parser:"+sup.PanicSig(stack), human, fmt.Sprint(r), "a result or an error")
		return
	}
	if t.wantErr {
		if err == nil {
			w.Class("missing-error")
			got, _ := c14Render(parsed)
			w.Violate("C14:missing-error:"+t.label, human, "parsed as "+got, "an error")
			// still check that using it does not panic (it is what a caller would do next)
		} else {
			w.Class("error-reported")
			return
		}
	}
	if err != nil {
		if t.want != "" {
			w.Class("rejected")
			w.Violate("C14:grammatical-text-rejected:"+t.label, human, err.Error(), t.want)
		} else {
			w.Class("parse-error")
		}
		return
	}
	got, rerr := c14Render(parsed)
	if rerr != nil {
		w.Class("malformed-result")
		w.Violate("C14:malformed-parse-result:"+t.label, human, rerr.Error(), "a well-formed structure")
	} else if t.want != "" && got != t.want {
		w.Class("wrong-structure")
		w.Violate("C14:wrong-structure:"+t.label, human, got, t.want)
		return
	}
	if r, stack := sup.Catch(func() { c14Use(parsed) }); r != nil {
		w.Class("panic-on-use")
		w.Violate("C14:panic-on-first-use:"+sup.PanicSig(stack), human, fmt.Sprintf("parsed as %s; then: %v", got, r), "no panic")
		return
	}
	if t.want != "" {
		w.Class("parsed-as-denoted:" + t.kind)
		w.NontrivialByIndex()
		if w.WantSample(t.label) {
			w.Sample(t.label, map[string]string{"text": text, "parsed": got})
		}
	} else if !t.wantErr {
		w.Class("parsed-no-expectation")
	}
}

// ---- corpora -------------------------------------------------------------------------------------

var c14P = gram.Pred{Name: "p", Terms: []gram.Leaf{gram.LVarX}}

// c14ExprFrames puts an expression into a check, a rule and a policy.
func c14ExprFrames(label string, syn *gram.Node) []c14Text {
	params := map[string]rx.Val{}
	syn.Params(params)
	body := gram.Body{{P: &c14P}, {E: syn}}
	q := body.Denote(gram.QueryHead())
	head := gram.Pred{Name: "h", Terms: []gram.Leaf{gram.LVarX}}
	return []c14Text{
		{kind: "check", toks: gram.QueriesToks("check if", []gram.Body{body}), params: params, want: refdl.Check{Queries: []refdl.Rule{q}}.String(), label: label},
		{kind: "rule", toks: gram.RuleToks(head, body), params: params, want: body.Denote(head.Atom()).String(), label: label},
		{kind: "policy", toks: gram.QueriesToks("deny if", []gram.Body{body}), params: params, want: refdl.Policy{Allow: false, Queries: []refdl.Rule{q}}.String(), label: label},
	}
}

// renderings: minimal parentheses, fully parenthesised, minimal plus one redundant pair at each node
func c14Renderings(sem *gram.Node) []*gram.Node {
	out := []*gram.Node{gram.Minimal(sem), gram.Full(sem)}
	n := gram.CountNodes(gram.Minimal(sem))
	for k := 0; k < n; k++ {
		out = append(out, gram.Redundant(sem, k))
	}
	return out
}

func c14Frames() []c14Text {
	var out []c14Text
	ground := []gram.Leaf{gram.LInt, gram.LStr, gram.LDate, gram.LBytes, gram.LBool, gram.LSet, gram.LParam, gram.LSetStr}
	// other spellings of the documented literal forms: RFC 3339 offsets and fractions, negative integers
	spellings := []gram.Leaf{gram.L("2020-05-06T07:08:09+02:00", rx.Date(1588748889-7200)), gram.L("2020-05-06T07:08:09-05:00", rx.Date(1588748889+18000)),
		gram.L("2020-05-06T07:08:09.250-07:30", rx.Date(1588748889+27000)), gram.L("-3", rx.Int(-3)), gram.L("-9223372036854775808", rx.Int(-9223372036854775808)),
		gram.Leaf{Toks: []string{"[", "-3", ",", "4", "]"}, Val: rx.SetOf(rx.Int(-3), rx.Int(4))}}
	all := append([]gram.Leaf{gram.LVarX}, ground...)
	// facts: every ground term kind alone, in pairs, zero arity
	out = append(out, c14Text{kind: "fact", toks: gram.Pred{Name: "zero"}.Tokens(), want: refdl.A("zero").Key(), label: "fact"})
	for _, a := range ground {
		p := gram.Pred{Name: "f", Terms: []gram.Leaf{a}}
		pm := map[string]rx.Val{}
		p.Params(pm)
		out = append(out, c14Text{kind: "fact", toks: p.Tokens(), params: pm, want: p.Atom().Key(), label: "fact"})
		for _, b := range ground {
			p2 := gram.Pred{Name: "name_1:x", Terms: []gram.Leaf{a, b, a}}
			pm2 := map[string]rx.Val{}
			p2.Params(pm2)
			out = append(out, c14Text{kind: "fact", toks: p2.Tokens(), params: pm2, want: p2.Atom().Key(), label: "fact"})
		}
	}
	for _, a := range spellings {
		for _, p := range []gram.Pred{{Name: "f", Terms: []gram.Leaf{a}}, {Name: "f", Terms: []gram.Leaf{gram.LInt, a}}, {Name: "f", Terms: []gram.Leaf{a, gram.LStr}}} {
			out = append(out, c14Text{kind: "fact", toks: p.Tokens(), want: p.Atom().Key(), label: "fact-literal-spelling"})
			out = append(out, c14Text{kind: "check", toks: gram.QueriesToks("check if", []gram.Body{{{P: &gram.Pred{Name: p.Name, Terms: p.Terms}}}}), want: refdl.Check{Queries: []refdl.Rule{gram.Body{{P: &gram.Pred{Name: p.Name, Terms: p.Terms}}}.Denote(gram.QueryHead())}}.String(), label: "check-literal-spelling"})
		}
		// as an expression operand: $x < literal, $x - literal
		for _, op := range []rx.Binary{rx.LessThan, rx.Sub, rx.Equal} {
			out = append(out, c14ExprFrames("expression-literal-spelling", gram.Minimal(gram.Bin(op, gram.Lf(gram.LVarX), gram.Lf(a))))...)
			out = append(out, c14ExprFrames("expression-literal-spelling", gram.Minimal(gram.Bin(op, gram.Lf(a), gram.Lf(gram.LVarX))))...)
		}
	}
	// rules and queries with 1-3 body elements
	preds := []gram.Pred{}
	for _, a := range all {
		preds = append(preds, gram.Pred{Name: "b", Terms: []gram.Leaf{gram.LVarX, a}})
	}
	exprs := []*gram.Node{gram.Bin(rx.LessThan, gram.Lf(gram.LVarX), gram.Lf(gram.LInt)), gram.Bin(rx.Contains, gram.Lf(gram.LSet), gram.Lf(gram.LVarX)), gram.Not(gram.Lf(gram.LBool))}
	var elems []gram.Elem
	for i := range preds {
		elems = append(elems, gram.Elem{P: &preds[i]})
	}
	for _, e := range exprs {
		elems = append(elems, gram.Elem{E: gram.Minimal(e)})
	}
	var bodies []gram.Body
	for _, a := range elems {
		bodies = append(bodies, gram.Body{a})
		for _, b := range elems[:6] {
			bodies = append(bodies, gram.Body{a, b})
			for _, c := range elems[8:] {
				bodies = append(bodies, gram.Body{a, b, c})
			}
		}
	}
	head := gram.Pred{Name: "head", Terms: []gram.Leaf{gram.LVarX, gram.LStr}}
	for _, b := range bodies {
		pm := map[string]rx.Val{}
		b.Params(pm)
		out = append(out, c14Text{kind: "rule", toks: gram.RuleToks(head, b), params: pm, want: b.Denote(head.Atom()).String(), label: "rule"})
	}
	// checks and policies with 1-3 alternatives
	for i := 0; i+2 < len(bodies); i += 7 {
		for n := 1; n <= 3; n++ {
			qs := bodies[i : i+n]
			pm := map[string]rx.Val{}
			var den []refdl.Rule
			for _, q := range qs {
				q.Params(pm)
				den = append(den, q.Denote(gram.QueryHead()))
			}
			out = append(out, c14Text{kind: "check", toks: gram.QueriesToks("check if", qs), params: pm, want: refdl.Check{Queries: den}.String(), label: "check"})
			out = append(out, c14Text{kind: "policy", toks: gram.QueriesToks("allow if", qs), params: pm, want: refdl.Policy{Allow: true, Queries: den}.String(), label: "policy"})
			out = append(out, c14Text{kind: "policy", toks: gram.QueriesToks("deny if", qs), params: pm, want: refdl.Policy{Queries: den}.String(), label: "policy"})
		}
	}
	// blocks and authorizers with 1-3 elements
	f1 := gram.Pred{Name: "f", Terms: []gram.Leaf{gram.LStr, gram.LInt}}
	f2 := gram.Pred{Name: "g", Terms: []gram.Leaf{gram.LDate}}
	rb := gram.Body{{P: &preds[0]}, {E: gram.Minimal(exprs[0])}}
	cb := gram.Body{{P: &preds[1]}}
	type el struct {
		toks []string
		add  func(b *refdl.Block, ps *[]refdl.Policy)
	}
	els := []el{
		{f1.Tokens(), func(b *refdl.Block, _ *[]refdl.Policy) { b.Facts = append(b.Facts, f1.Atom()) }},
		{f2.Tokens(), func(b *refdl.Block, _ *[]refdl.Policy) { b.Facts = append(b.Facts, f2.Atom()) }},
		{gram.RuleToks(head, rb), func(b *refdl.Block, _ *[]refdl.Policy) { b.Rules = append(b.Rules, rb.Denote(head.Atom())) }},
		{gram.QueriesToks("check if", []gram.Body{cb, rb}), func(b *refdl.Block, _ *[]refdl.Policy) {
			b.Checks = append(b.Checks, refdl.Check{Queries: []refdl.Rule{cb.Denote(gram.QueryHead()), rb.Denote(gram.QueryHead())}})
		}},
	}
	pels := []el{
		{gram.QueriesToks("allow if", []gram.Body{cb}), func(_ *refdl.Block, ps *[]refdl.Policy) {
			*ps = append(*ps, refdl.Policy{Allow: true, Queries: []refdl.Rule{cb.Denote(gram.QueryHead())}})
		}},
		{gram.QueriesToks("deny if", []gram.Body{rb, cb}), func(_ *refdl.Block, ps *[]refdl.Policy) {
			*ps = append(*ps, refdl.Policy{Queries: []refdl.Rule{rb.Denote(gram.QueryHead()), cb.Denote(gram.QueryHead())}})
		}},
	}
	mk := func(kind string, seq []el) c14Text {
		var toks []string
		var b refdl.Block
		var ps []refdl.Policy
		for _, e := range seq {
			toks = append(append(toks, e.toks...), ";")
			e.add(&b, &ps)
		}
		want := b.String()
		if kind == "authorizer" {
			want += " policies " + policyString(ps)
		}
		return c14Text{kind: kind, toks: toks, want: want, label: kind}
	}
	out = append(out, mk("block", nil), mk("authorizer", nil))
	for _, a := range els {
		out = append(out, mk("block", []el{a}), mk("authorizer", []el{a}))
		for _, b := range els {
			out = append(out, mk("block", []el{a, b}))
			for _, c := range els {
				out = append(out, mk("block", []el{a, b, c}))
			}
		}
	}
	for _, a := range append(els, pels...) {
		for _, b := range pels {
			out = append(out, mk("authorizer", []el{a, b}), mk("authorizer", []el{b, a}), mk("authorizer", []el{b, a, pels[0]}))
		}
	}
	return out
}

// c14Errors: the error cases of the statement, each inside and outside expressions.
func c14Errors() []c14Text {
	bad := []struct {
		label string
		leaf  gram.Leaf
	}{
		{"unbound-parameter", gram.Leaf{Toks: []string{"{unbound}"}}},
		{"malformed-date", gram.Leaf{Toks: []string{"2023-13-45T00:00:00Z"}}},
		{"malformed-date", gram.Leaf{Toks: []string{"2023-02-30T25:00:00Z"}}},
		// well-formed except for the zone designator RFC 3339 requires (the lexer's date token makes it optional)
		{"malformed-date", gram.Leaf{Toks: []string{"2030-06-01T12:00:00"}}},
		{"malformed-date", gram.Leaf{Toks: []string{"2030-06-01T12:00:00.5"}}},
		// one field just out of range
		{"malformed-date", gram.Leaf{Toks: []string{"2023-06-31T00:00:00Z"}}},
		{"malformed-date", gram.Leaf{Toks: []string{"2023-02-29T00:00:00+01:00"}}},
		{"malformed-date", gram.Leaf{Toks: []string{"2023-01-01T24:00:00Z"}}},
		{"malformed-date", gram.Leaf{Toks: []string{"2023-01-01T00:60:00Z"}}},
		{"malformed-date", gram.Leaf{Toks: []string{"2023-01-01T00:00:61-02:00"}}},
		// byte literals: odd digit counts of several lengths
		{"malformed-bytes", gram.Leaf{Toks: []string{"hex:a"}}},
		{"malformed-bytes", gram.Leaf{Toks: []string{"hex:12345"}}},
		{"malformed-bytes", gram.Leaf{Toks: []string{"hex:0g"}}},
		{"malformed-bytes", gram.Leaf{Toks: []string{"hex:abc"}}},
		{"variable-in-set", gram.Leaf{Toks: []string{"[", "$v", "]"}}},
		{"variable-in-set", gram.Leaf{Toks: []string{"[", "1", ",", "$v", "]"}}},
		{"unbound-parameter-in-set", gram.Leaf{Toks: []string{"[", "{unbound}", "]"}}},
	}
	var out []c14Text
	px := gram.Pred{Name: "p", Terms: []gram.Leaf{gram.LVarX}}
	for _, b := range bad {
		l := b.leaf
		// outside expressions: in a fact, a rule head, a rule body predicate, a check predicate
		out = append(out, c14Text{kind: "fact", toks: gram.Pred{Name: "f", Terms: []gram.Leaf{l}}.Tokens(), wantErr: true, label: b.label + ":fact-term"})
		out = append(out, c14Text{kind: "rule", toks: gram.RuleToks(gram.Pred{Name: "h", Terms: []gram.Leaf{l}}, gram.Body{{P: &px}}), wantErr: true, label: b.label + ":rule-head"})
		bp := gram.Pred{Name: "b", Terms: []gram.Leaf{gram.LVarX, l}}
		out = append(out, c14Text{kind: "rule", toks: gram.RuleToks(gram.Pred{Name: "h", Terms: []gram.Leaf{gram.LVarX}}, gram.Body{{P: &bp}}), wantErr: true, label: b.label + ":body-predicate"})
		out = append(out, c14Text{kind: "check", toks: gram.QueriesToks("check if", []gram.Body{{{P: &bp}}}), wantErr: true, label: b.label + ":check-predicate"})
		out = append(out, c14Text{kind: "block", toks: append(gram.Pred{Name: "f", Terms: []gram.Leaf{l}}.Tokens(), ";"), wantErr: true, label: b.label + ":block-fact"})
		// inside expressions: as an operand, as a method receiver, as a method argument, nested in parentheses
		var chains []*gram.Node
		for _, e := range []*gram.Node{
			gram.Bin(rx.Equal, gram.Lf(gram.LVarX), gram.Lf(l)),
			gram.Bin(rx.Equal, gram.Lf(l), gram.Lf(gram.LVarX)),
			gram.Bin(rx.Contains, gram.Lf(l), gram.Lf(gram.LVarX)),
			gram.Bin(rx.Contains, gram.Lf(gram.LSet), gram.Lf(l)),
			gram.Length(gram.Lf(l)),
			gram.Not(gram.Paren(gram.Bin(rx.And, gram.Lf(gram.LBool), gram.Paren(gram.Bin(rx.LessThan, gram.Lf(gram.LInt), gram.Lf(l)))))),
			gram.Bin(rx.Union, gram.Bin(rx.Union, gram.Lf(gram.LSet), gram.Lf(gram.LSet)), gram.Lf(l)),
		} {
			chains = append(chains, e)
		}
		// every operand position of a three-operand chain at every precedence level, and both
		// sides of a comparison whose operands are themselves sums and products
		for _, op := range []rx.Binary{rx.Or, rx.And, rx.Add, rx.Sub, rx.Mul, rx.Div} {
			ok := gram.Lf(gram.LVarX)
			for pos := 0; pos < 3; pos++ {
				xs := []*gram.Node{ok, ok, ok}
				xs[pos] = gram.Lf(l)
				chains = append(chains, gram.Bin(op, gram.Bin(op, xs[0], xs[1]), xs[2]))
			}
		}
		for _, cmp := range []rx.Binary{rx.LessThan, rx.GreaterOrEqual, rx.Equal} {
			chains = append(chains,
				gram.Bin(cmp, gram.Bin(rx.Add, gram.Lf(gram.LVarX), gram.Lf(l)), gram.Lf(gram.LInt)),
				gram.Bin(cmp, gram.Bin(rx.Mul, gram.Lf(l), gram.Lf(gram.LVarX)), gram.Lf(gram.LInt)),
				gram.Bin(cmp, gram.Lf(gram.LInt), gram.Bin(rx.Mul, gram.Bin(rx.Mul, gram.Lf(gram.LVarX), gram.Lf(l)), gram.Lf(gram.LInt))),
			)
		}
		chains = append(chains,
			gram.Bin(rx.Prefix, gram.Lf(gram.LVarX), gram.Lf(l)),
			gram.Bin(rx.Intersection, gram.Lf(gram.LSet), gram.Lf(l)),
			gram.Bin(rx.Contains, gram.Bin(rx.Union, gram.Lf(gram.LSet), gram.Lf(l)), gram.Lf(gram.LVarX)),
			gram.Not(gram.Lf(l)),
		)
		for pos, e := range chains {
			lab := fmt.Sprintf("%s:in-expression-%d", b.label, pos)
			body := gram.Body{{P: &px}, {E: gram.Minimal(e)}}
			out = append(out,
				c14Text{kind: "check", toks: gram.QueriesToks("check if", []gram.Body{body}), wantErr: true, label: lab},
				c14Text{kind: "rule", toks: gram.RuleToks(gram.Pred{Name: "h", Terms: []gram.Leaf{gram.LVarX}}, body), wantErr: true, label: lab},
				c14Text{kind: "policy", toks: gram.QueriesToks("allow if", []gram.Body{body}), wantErr: true, label: lab},
				c14Text{kind: "block", toks: append(gram.QueriesToks("check if", []gram.Body{body}), ";"), wantErr: true, label: lab},
				c14Text{kind: "authorizer", toks: append(gram.QueriesToks("deny if", []gram.Body{{{P: &px}}, body}), ";"), wantErr: true, label: lab},
			)
		}
	}
	// chained comparisons
	for _, ops := range [][2]rx.Binary{{rx.LessThan, rx.LessThan}, {rx.Equal, rx.Equal}, {rx.LessOrEqual, rx.GreaterThan}, {rx.GreaterOrEqual, rx.Equal}} {
		toks := []string{"1", map[rx.Binary]string{rx.LessThan: "<", rx.Equal: "==", rx.LessOrEqual: "<=", rx.GreaterOrEqual: ">=", rx.GreaterThan: ">"}[ops[0]], "$x", map[rx.Binary]string{rx.LessThan: "<", rx.Equal: "==", rx.LessOrEqual: "<=", rx.GreaterOrEqual: ">=", rx.GreaterThan: ">"}[ops[1]], "3"}
		pt := px.Tokens()
		out = append(out,
			c14Text{kind: "check", toks: append(append([]string{"check if"}, append(pt, ",")...), toks...), wantErr: true, label: "chained-comparison"},
			c14Text{kind: "rule", toks: append(append(append([]string{"h", "(", "$x", ")", "<-"}, pt...), ","), toks...), wantErr: true, label: "chained-comparison"},
			c14Text{kind: "policy", toks: append(append([]string{"allow if"}, append(pt, ",")...), append(append([]string{"true", "&&"}, toks...), "||", "false")...), wantErr: true, label: "chained-comparison"},
			c14Text{kind: "check", toks: append(append([]string{"check if"}, append(pt, ",")...), append(append([]string{"[", "1", "]", ".", "contains", "("}, toks...), ")")...), wantErr: true, label: "chained-comparison-in-argument"},
		)
	}
	return out
}

var c14TokenClasses = []string{"$v", "{p}", "hex:ff", `"s"`, "2020-01-01T00:00:00Z", "9", "true", "name", "check if", "allow if", "<-", "(", ")", "[", "]", ",", ";", ".", "!", "==", "<", "&&", "||", "+", "/", "or", "length", "contains", "union", "//x"}

func init() {
	register(&sup.Check{
		ID:           "C14",
		Level:        "exploration",
		Technique:    "bounded-exhaustive enumeration of derivations of the documented grammar (expression syntax trees with explicit parenthesisation, frames, layouts) with the generator's own syntax tree as the reference denotation; exhaustive single-token corruptions for the no-panic clause",
		Rule:         "expressions: every operator (11 infix, 6 binary methods, length, !) on every pair of the 8 term kinds; every tree of depth 2 (thorough: also depth 3 with a depth-2 subtree on either side) over all 19 operators; each rendered with the minimal parentheses the documented precedence/associativity table requires, fully parenthesised, and minimal plus one redundant pair at every node; 2-4 layouts (single spaces, no spaces where the lexer allows, newlines with a leading comment, tabs); each in a check, a rule and a policy. frames: facts with every ground term kind (incl. bound parameters, sets), rules and queries with 1-3 elements, checks and policies with 1-3 'or' alternatives, blocks and authorizers with 0-3 elements. errors: unbound parameter, malformed date, malformed byte literal, variable in a set, unbound parameter in a set - in a fact, a rule head, a body predicate, a check, a block, and at 37 positions inside expressions (every operand position of a three-operand chain at every precedence level, both sides of comparisons over sums and products, method receivers and arguments, under ! and parentheses) - and chained comparisons. corruptions: every single-token deletion, duplication, adjacent swap and replacement by one of 30 token classes of a sub-corpus. Oracle: the parsed structure equals the tree's denotation (term types and values, parameters substituted, postfix operators with Parens exactly where the text has parentheses, 'or' as separate queries); the stated error cases return an error; no parse function panics; every successfully parsed element is added to a Builder, a BlockBuilder and an authorizer and authorized without panic. Non-trivial = a grammatical text parsed as denoted; distinct by construction.",
		Assume:       []string{"names are identifiers that do not begin with a lexer keyword (true, false, prefix, suffix, matches, length, contains): GRAMMAR.md does not define the name syntax", "the reference denotation is the generator's syntax tree; the documented precedence table is transcribed in internal/gram"},
		Procs:        func(string) int { return 16 },
		SingleThread: true,
		Spaces: func(c *sup.Ctx) []*sup.Space {
			var spaces []*sup.Space
			mkSpace := func(name string, texts []c14Text, layouts []int) *sup.Space {
				nl := int64(len(layouts))
				return &sup.Space{Name: name, Size: func(*sup.Ctx) int64 { return int64(len(texts)) * nl }, Run: func(i int64, w *sup.W) {
					c14Check(w, texts[i/nl], layouts[i%nl])
				}}
			}
			// A: operators x leaves
			var ta []c14Text
			for _, sem := range gram.Depth1(gram.AllLeaves) {
				for _, syn := range c14Renderings(sem) {
					ta = append(ta, c14ExprFrames("operator-x-terms", syn)...)
				}
			}
			spaces = append(spaces, mkSpace("operators-x-term-kinds", ta, []int{0, 1, 2, 3}))
			// B: nesting
			subs := []*gram.Node{gram.Lf(gram.LVarX), gram.Lf(gram.LInt)}
			d1 := gram.Depth1([]gram.Leaf{gram.LVarX})
			if c.Thorough() {
				d1 = gram.Depth1([]gram.Leaf{gram.LVarX, gram.LInt})
			}
			subs = append(subs, d1...)
			d2 := gram.Compose(subs)
			spaces = append(spaces, &sup.Space{Name: "nesting-depth-2", Size: func(*sup.Ctx) int64 { return int64(len(d2)) }, Run: func(i int64, w *sup.W) {
				for _, syn := range c14Renderings(d2[i]) {
					for _, t := range c14ExprFrames("nesting", syn)[:1+int(i%2)] {
						c14Check(w, t, 0)
						c14Check(w, t, 1)
					}
				}
			}})
			if c.Thorough() {
				small := gram.Compose(append([]*gram.Node{gram.Lf(gram.LVarX)}, gram.Depth1([]gram.Leaf{gram.LVarX})...))
				leaf := gram.Lf(gram.LInt)
				var d3 []*gram.Node
				for _, t := range small {
					d3 = append(d3, gram.Not(t), gram.Length(t))
					for _, op := range append(append([]rx.Binary{}, gram.InfixOps...), gram.MethodOps...) {
						d3 = append(d3, gram.Bin(op, t, leaf), gram.Bin(op, leaf, t))
					}
				}
				spaces = append(spaces, &sup.Space{Name: "nesting-depth-3", Size: func(*sup.Ctx) int64 { return int64(len(d3)) }, Run: func(i int64, w *sup.W) {
					for _, syn := range []*gram.Node{gram.Minimal(d3[i]), gram.Full(d3[i])} {
						c14Check(w, c14ExprFrames("nesting-3", syn)[0], int(i%2))
					}
				}})
			}
			spaces = append(spaces, mkSpace("frames", c14Frames(), []int{0, 1, 2, 3, 10, 20, 30}))
			spaces = append(spaces, mkSpace("stated-error-cases", c14Errors(), []int{0, 1, 10, 20, 30}))
			spaces = append(spaces, c14ReuseSpace(), c14TreeSpace())
			// corruptions of a sub-corpus
			var corpus []c14Text
			fr := c14Frames()
			for i := 0; i < len(fr); i += sup.Pick(c, 23, 5) {
				corpus = append(corpus, fr[i])
			}
			for i := 0; i < len(ta); i += sup.Pick(c, 401, 97) {
				corpus = append(corpus, ta[i])
			}
			type cor struct {
				t    int
				kind int
				pos  int
				cls  int
			}
			var cors []cor
			for ti, t := range corpus {
				for p := range t.toks {
					cors = append(cors, cor{ti, 0, p, 0}, cor{ti, 1, p, 0})
					if p+1 < len(t.toks) {
						cors = append(cors, cor{ti, 2, p, 0})
					}
					for k := range c14TokenClasses {
						cors = append(cors, cor{ti, 3, p, k})
					}
				}
			}
			spaces = append(spaces, &sup.Space{Name: "token-corruptions", Size: func(*sup.Ctx) int64 { return int64(len(cors)) }, Run: func(i int64, w *sup.W) {
				cr := cors[i]
				base := corpus[cr.t]
				toks := append([]string{}, base.toks...)
				var what string
				switch cr.kind {
				case 0:
					toks = append(toks[:cr.pos], toks[cr.pos+1:]...)
					what = "deletion"
				case 1:
					toks = append(toks[:cr.pos+1], toks[cr.pos:]...)
					what = "duplication"
				case 2:
					toks[cr.pos], toks[cr.pos+1] = toks[cr.pos+1], toks[cr.pos]
					what = "swap"
				case 3:
					toks[cr.pos] = c14TokenClasses[cr.cls]
					what = "replacement"
				}
				c14Check(w, c14Text{kind: base.kind, toks: toks, params: base.params, label: "corruption-" + what}, 0)
			}})
			return spaces
		},
	})
}
