package props

import (
	"encoding/hex"
	"encoding/json"
	"fmt"
	"sync"

	"verif/internal/sup"
	"verif/internal/wire"
)

var (
	c01Once     sync.Once
	c01PoolAll  []*poolToken
	c01FullUni  *c01Universe
	c01PoolErr  error
	c01WarmOnce sync.Once
)

func c01Shared() ([]*poolToken, *c01Universe, error) {
	c01Once.Do(func() {
		c01PoolAll, c01PoolErr = buildPool(3)
		if c01PoolErr == nil {
			c01FullUni = c01BuildUniverse(c01PoolAll)
		}
	})
	return c01PoolAll, c01FullUni, c01PoolErr
}

// c01ReplayGeneric re-verifies one recorded envelope (used by C01 and C09).
func c01ReplayGeneric(raw json.RawMessage, w *sup.W) {
	var cs c01Case
	if err := json.Unmarshal(raw, &cs); err != nil {
		return
	}
	pool, full, err := c01Shared()
	if err != nil {
		return
	}
	// the verifier has seen the genuine tokens before it is shown the edited one (as in the
	// search itself, which starts from the verified honest pool): whatever it remembers from
	// them must not help a forgery
	c01WarmOnce.Do(func() {
		for _, t := range pool {
			libAccepts(t.Bytes, rootPub(t.Root))
		}
	})
	ser, err := hex.DecodeString(cs.Hex)
	if err != nil {
		return
	}
	env, err := wire.DecodeEnvelope(ser)
	if err != nil {
		for _, root := range []int{1, 2, 0} {
			if acc, _ := libAccepts(ser, rootPub(root)); acc {
				w.SetCase(cs)
				w.Violate("C01:accepts-undecodable-bytes", cs.Seed, "accepted", "rejected")
			}
		}
		return
	}
	if len(cs.Path) > 0 && cs.Path[0] == "byte-level" {
		c01ByteCase(w, cs.Seed, cs.Path[1], ser)
		return
	}
	w.SetCase(cs)
	sup.Guard(w, fmt.Sprintf("%s %v", cs.Seed, cs.Path), func() { c01Verify(w, full, &c01State{env: env, path: cs.Path, seed: cs.Seed}, ser) })
}
