package props

import (
	"fmt"
	"strings"

	biscuit "github.com/biscuit-auth/biscuit-go/v2"
	"github.com/biscuit-auth/biscuit-go/v2/datalog"

	"verif/internal/hx"
	"verif/internal/refdl"
	rx "verif/internal/refexpr"
	"verif/internal/sup"
)

// Block builders of one parent that are alive at the same time: every
// interleaving of two create / fill / build+append lifecycles, optionally
// preceded by a builder that is filled and then abandoned.
func c07OverlapSpace() *sup.Space {
	kids := []refdl.Block{
		{Facts: []refdl.Atom{atom("label", rx.Str("draft"), rx.Str("final"))}},
		{Facts: []refdl.Atom{atom("label", rx.Str("final"), rx.Str("other"))}, Checks: []refdl.Check{chk(q(atom("label", vx, rx.Str("final"))))}},
		{Rules: []refdl.Rule{rule(atom("draft", vx), atom("owner", vx, vy))}},
		{Facts: []refdl.Atom{atom("owner", rx.Str("f1"), rx.Int(3))}},
	}
	parents := [][]refdl.Block{{c07Shared[0]}, {c07Shared[0], c07Shared[1]}}
	// interleavings of a0 a1 a2 with b0 b1 b2 as bit patterns with three bits set
	var orders [][]int
	for m := 0; m < 64; m++ {
		n := 0
		for k := 0; k < 6; k++ {
			if m&(1<<uint(k)) != 0 {
				n++
			}
		}
		if n != 3 {
			continue
		}
		var o []int
		for k := 0; k < 6; k++ {
			if m&(1<<uint(k)) != 0 {
				o = append(o, 0)
			} else {
				o = append(o, 1)
			}
		}
		orders = append(orders, o)
	}
	nk := int64(len(kids))
	size := int64(len(orders)) * nk * nk * int64(len(parents)) * 2 * 3
	return &sup.Space{Name: "overlapped-and-abandoned-block-builders", Size: func(*sup.Ctx) int64 { return size }, Run: func(i int64, w *sup.W) {
		prelude := int(i % 3) // 0 nothing; 1 a builder is filled and abandoned; 2 a lookup of a fact with unseen strings
		abandoned := prelude == 1
		i /= 3
		reloaded := i%2 == 1
		i /= 2
		chain := parents[i%int64(len(parents))]
		i /= int64(len(parents))
		kb := [2]refdl.Block{kids[i%nk], kids[(i/nk)%nk]}
		order := orders[i/(nk*nk)]
		ra := -1
		if reloaded {
			ra = len(chain) - 1
		}
		parent, err := c07Build(chain[0], chain[1:], nil, false, ra)
		if err != nil {
			w.Violate("C07:build-failed", "overlap parent", err.Error(), "a token")
			return
		}
		before := parent.String()
		var desc []string
		if abandoned {
			ab := parent.CreateBlock()
			hx.FillBlock(ab, refdl.Block{Facts: []refdl.Atom{atom("label", rx.Str("abandoned"), rx.Str("final"))}, Rules: []refdl.Rule{rule(atom("draft", vx), atom("scratch", vx))}})
			desc = append(desc, "X:create+fill(never built)")
			w.Stats().Transitions++
		}
		if prelude == 2 {
			parent.GetBlockID(hx.Fact(atom("label", rx.Str("looked-up-only"), rx.Str("final"))))
			parent.GetBlockID(hx.Fact(atom("owner", rx.Str("looked-up-too"), rx.Int(1))))
			desc = append(desc, "GetBlockID(facts with unseen strings)")
			w.Stats().Transitions++
		}
		var bb [2]biscuit.BlockBuilder
		var step [2]int
		var toks [2]*biscuit.Biscuit
		for _, who := range order {
			switch step[who] {
			case 0:
				bb[who] = parent.CreateBlock()
			case 1:
				if err := hx.FillBlock(bb[who], kb[who]); err != nil {
					w.Violate("C07:build-failed", "overlap child", err.Error(), "a block")
					return
				}
			case 2:
				t, err := parent.Append(hx.NewRNG(uint64(900+who)), bb[who].Build())
				if err != nil {
					w.Violate("C07:build-failed", "overlap child", err.Error(), "a token")
					return
				}
				toks[who] = t
			}
			desc = append(desc, fmt.Sprintf("%c:%s", 'A'+who, []string{"create", "fill", "build+append"}[step[who]]))
			step[who]++
			w.Stats().Transitions++
		}
		human := fmt.Sprintf("parent %s (reloaded=%v); A=%s B=%s; %s", blocksString(chain), reloaded, kb[0], kb[1], strings.Join(desc, " "))
		for k, t := range toks {
			supplied := append(append([]refdl.Block{}, chain...), kb[k])
			w.Stats().States++
			if !c07CheckToken(w, t, supplied, nil, fmt.Sprintf("%s; child %c", human, 'A'+k)) {
				return
			}
		}
		if !c07CheckToken(w, parent, chain, nil, human+"; the parent afterwards") {
			return
		}
		if after := parent.String(); after != before {
			w.Class("parent-changed")
			w.Violate("C07:parent-content-changed-by-block-builders", human, after, before)
			return
		}
		w.Class("faithful")
		w.NontrivialByIndex()
		if w.WantSample("overlap") {
			w.Sample("overlap", map[string]string{"history": human})
		}
	}}
}

// itemTriples returns all unordered triples of items (thorough tiers).
func itemTriples(items []item) [][]item {
	var out [][]item
	for i := range items {
		for j := i + 1; j < len(items); j++ {
			for k := j + 1; k < len(items); k++ {
				out = append(out, []item{items[i], items[j], items[k]})
			}
		}
	}
	return out
}

// c07SequentialSpace: the lower-level route - NewBlockBuilder over a table the caller owns, biscuit.New with
// that table. Builder A is created, filled and built; only then is builder B created over the same table and
// filled and built; the tokens are signed afterwards, in either order. Each token must carry
// what its own builder received.
func c07SequentialSpace() *sup.Space {
	kids := []refdl.Block{
		{Facts: []refdl.Atom{atom("label", rx.Str("draft"), rx.Str("final"))}},
		{Facts: []refdl.Atom{atom("label", rx.Str("final"), rx.Str("other"))}, Checks: []refdl.Check{chk(q(atom("label", vx, rx.Str("final"))))}},
		{Rules: []refdl.Rule{rule(atom("draft", vx), atom("owner", vx, vy))}},
		{Facts: []refdl.Atom{atom("owner", rx.Str("f1"), rx.Str("f2")), atom("quota", rx.Str("f3"), rx.Int(10))}},
	}
	nk := int64(len(kids))
	size := nk * nk * 2 * 2
	return &sup.Space{Name: "sequential-builders-over-one-base-table", Size: func(*sup.Ctx) int64 { return size }, Run: func(i int64, w *sup.W) {
		spare := i%2 == 1
		i /= 2
		// B is always built before anything is signed: signing A while B is still open over the same table
		// hands New a table that is not the one A was built over - the caller's mistake, not the library's
		// (on the unchanged tree the token then prints differently in memory and after a reload)
		bBuilt := true
		bFirst := i%2 == 1
		i /= 2
		kb := [2]refdl.Block{kids[i%nk], kids[i/nk]}
		_, priv := hx.Keys(1)
		base := &datalog.SymbolTable{}
		if spare {
			t := make(datalog.SymbolTable, 0, 16)
			base = &t
		}
		human := fmt.Sprintf("base table (spare capacity: %v); A=NewBlockBuilder(base), fill %s, Build; B=NewBlockBuilder(base), fill %s, built=%v; New(base, A) and New(base, B), B first=%v", spare, kb[0], kb[1], bBuilt, bFirst)
		var toks [2]*biscuit.Biscuit
		var err error
		if r, stack := sup.Catch(func() {
			bA := biscuit.NewBlockBuilder(base)
			if err = hx.FillBlock(bA, kb[0]); err != nil {
				return
			}
			blkA := bA.Build()
			bB := biscuit.NewBlockBuilder(base)
			if err = hx.FillBlock(bB, kb[1]); err != nil {
				return
			}
			var blkB *biscuit.Block
			if bBuilt {
				blkB = bB.Build()
			}
			sign := func(k int) {
				if err != nil {
					return
				}
				switch {
				case k == 0:
					toks[0], err = biscuit.New(hx.NewRNG(21), priv, base, blkA)
				case blkB != nil:
					toks[1], err = biscuit.New(hx.NewRNG(22), priv, base, blkB)
				}
			}
			if bFirst {
				sign(1)
				sign(0)
			} else {
				sign(0)
				sign(1)
			}
		}); r != nil {
			w.Class("panic")
			w.Violate("C07:panic-while-building:"+sup.PanicSig(stack), human, fmt.Sprint(r), "tokens or an error")
			return
		}
		w.Stats().Transitions += 6
		if err != nil {
			if !bBuilt {
				// signing A while B is still open over the same table may be refused (the table is not the one A was built over)
				w.Class("refused-while-another-builder-is-open")
				w.NontrivialByIndex()
				return
			}
			w.Class("build-error")
			w.Violate("C07:build-failed", human, err.Error(), "tokens")
			return
		}
		for k, t := range toks {
			if t == nil {
				continue
			}
			w.Stats().States++
			if !c07CheckToken(w, t, []refdl.Block{kb[k]}, nil, fmt.Sprintf("%s; token %c", human, 'A'+k)) {
				return
			}
		}
		w.Class("faithful")
		w.NontrivialByIndex()
	}}
}
