package props

import (
	"bytes"
	"crypto/ed25519"
	"fmt"
	"strings"

	biscuit "github.com/biscuit-auth/biscuit-go/v2"

	"verif/internal/hx"
	"verif/internal/refdl"
	rx "verif/internal/refexpr"
	"verif/internal/sup"
	"verif/internal/wire"
)

// C07 — wire fidelity: what the independent decoder finds in Serialize() is
// exactly what the caller supplied; Unmarshal/Serialize round-trips.

var vz = rx.Var("z")

// c07Items: one item per feature of the wire format.
var c07Items = func() []item {
	var out []item
	vals := []rx.Val{
		rx.Int(0), rx.Int(-1), rx.Int(1 << 62), rx.Str("fresh"), rx.Str(""), rx.Str("read"), rx.Str("x"), rx.Date(0), rx.Date(1700000000), rx.Date(1 << 34), rx.Date(253402300799), // 2514 and 9999: beyond the int64-nanosecond range
		rx.Bytes([]byte{}), rx.Bytes([]byte{0, 255}), rx.Bool(true), rx.Bool(false),
		rx.SetOf(rx.Int(1), rx.Int(2)), rx.SetOf(rx.Str("a"), rx.Str("read")), rx.SetOf(rx.Bytes([]byte{1}), rx.Bytes([]byte{2})), rx.SetOf(rx.Date(5)), rx.SetOf(rx.Bool(true), rx.Bool(false)),
	}
	for _, v := range vals {
		out = append(out, itF(atom("f", v)))
	}
	out = append(out, itF(atom("zero")), itF(atom("pair", rx.Str("fresh"), rx.Int(7))), itF(atom("operation", rx.Str("read"))))
	out = append(out,
		itR(rule(atom("h", vx, rx.Str("k")), atom("f", vx), atom("pair", vx, vy))),
		itR(rule(atom("h0"), atom("zero"))),
		itR(refdl.Rule{Head: atom("h", vx), Body: []refdl.Atom{atom("f", vx)}, Exprs: [][]rx.Op{binExpr(vx, rx.GreaterOrEqual, rx.Int(0)), binExpr(vx, rx.LessThan, rx.Int(9))}}),
	)
	// every binary operator, once in a check
	for b := rx.Binary(0); b < rx.NBinary; b++ {
		var l, r rx.Val = vx, rx.Int(3)
		switch b {
		case rx.Contains, rx.Prefix, rx.Suffix, rx.Regex:
			r = rx.Str("ab")
		case rx.And, rx.Or:
			r = rx.Bool(true)
		case rx.Intersection, rx.Union:
			r = rx.SetOf(rx.Int(1))
		case rx.Equal:
			r = rx.SetOf(rx.Str("s"))
		}
		out = append(out, itC(chk(qe([]refdl.Atom{atom("f", vx)}, binExpr(l, b, r)))))
	}
	// unary operators and nesting: !($x.length() == 1), (1 + 2) * ($x - (3))
	out = append(out,
		itC(chk(qe([]refdl.Atom{atom("f", vx)}, []rx.Op{{Kind: rx.OpValue, V: vx}, {Kind: rx.OpUnary, U: rx.Length}, {Kind: rx.OpValue, V: rx.Int(1)}, {Kind: rx.OpBinary, B: rx.Equal}, {Kind: rx.OpUnary, U: rx.Parens}, {Kind: rx.OpUnary, U: rx.Negate}}))),
		itC(chk(qe([]refdl.Atom{atom("f", vx)}, []rx.Op{{Kind: rx.OpValue, V: rx.Int(1)}, {Kind: rx.OpValue, V: rx.Int(2)}, {Kind: rx.OpBinary, B: rx.Add}, {Kind: rx.OpUnary, U: rx.Parens}, {Kind: rx.OpValue, V: vx}, {Kind: rx.OpValue, V: rx.Int(3)}, {Kind: rx.OpUnary, U: rx.Parens}, {Kind: rx.OpBinary, B: rx.Sub}, {Kind: rx.OpUnary, U: rx.Parens}, {Kind: rx.OpBinary, B: rx.Mul}, {Kind: rx.OpValue, V: rx.Int(0)}, {Kind: rx.OpBinary, B: rx.GreaterThan}}))),
		itC(chk(q(atom("f", vx)), q(atom("zero")), qe(nil, exprTrue))),
	)
	return out
}()

// c07Shared: blocks that reuse each other's symbols (a string first introduced in block i and used again in block j > i)
var c07Shared = []refdl.Block{
	{Facts: []refdl.Atom{atom("owner", rx.Str("alice"), rx.Str("file1"))}},
	{Facts: []refdl.Atom{atom("owner", rx.Str("bob"), rx.Str("file1"))}, Checks: []refdl.Check{chk(q(atom("owner", vx, rx.Str("file1"))))}},
	{Rules: []refdl.Rule{rule(atom("reader", vx), atom("owner", vx, vy))}, Checks: []refdl.Check{chk(qe([]refdl.Atom{atom("reader", vx)}, binExpr(vx, rx.Equal, rx.Str("alice"))))}},
	{Facts: []refdl.Atom{atom("file1", rx.Str("owner"))}, Context: "ctx-two"},
	{},
}

var c07Panel = []c09Panel{
	{refdl.Block{Facts: []refdl.Atom{fOpRead}}, []refdl.Policy{allow(qTrue)}},
	{refdl.Block{Facts: []refdl.Atom{atom("f", rx.Int(1))}}, []refdl.Policy{allow(q(atom("h", vx))), deny(qTrue)}},
	{refdl.Block{}, []refdl.Policy{allow(q(atom("reader", rx.Str("alice"))))}},
}

func blocksString(bs []refdl.Block) string {
	var s []string
	for _, b := range bs {
		x := b.String()
		if b.Context != "" {
			x += fmt.Sprintf("ctx=%q", b.Context)
		}
		s = append(s, x)
	}
	return strings.Join(s, " | ")
}

// c07CheckToken: the oracle for one library-made token whose supplied content is known.
func c07CheckToken(w *sup.W, tok *biscuit.Biscuit, supplied []refdl.Block, id *uint32, human string) bool {
	ser, err := tok.Serialize()
	if err != nil {
		w.Violate("C07:serialize-failed", human, err.Error(), "bytes")
		return false
	}
	env, err := wire.DecodeEnvelope(ser)
	if err != nil {
		w.Violate("C07:reference-decoder-rejects-library-bytes", human, err.Error(), "decodable by the published schema")
		return false
	}
	if (env.RootKeyID == nil) != (id == nil) || (id != nil && *env.RootKeyID != *id) {
		w.Violate("C07:root-key-id-on-the-wire", human, idStr(env.RootKeyID), idStr(id))
		return false
	}
	var wb []*wire.Block
	for i, sb := range append([]wire.SignedBlock{env.Authority}, env.Blocks...) {
		b, err := wire.DecodeBlock(sb.Block)
		if err != nil {
			w.Violate("C07:block-not-decodable", fmt.Sprintf("%s block %d", human, i), err.Error(), "decodable")
			return false
		}
		wb = append(wb, b)
	}
	got, err := wire.ResolveChain(wb)
	if err != nil {
		w.Class("symbol-rule-broken")
		w.Violate("C07:symbol-or-version-rule", human, err.Error(), "every index resolvable from the block's own and earlier tables; tables hold new symbols only; version 3")
		return false
	}
	if blocksString(got) != blocksString(supplied) {
		w.Class("content-differs")
		w.Violate("C07:decoded-content-differs", human, blocksString(got), blocksString(supplied))
		return false
	}
	// round trip
	re, err := biscuit.Unmarshal(ser)
	if err != nil {
		w.Violate("C07:unmarshal-rejects-own-bytes", human, err.Error(), "a token")
		return false
	}
	ser2, err := re.Serialize()
	if err != nil || !bytes.Equal(ser, ser2) {
		w.Class("reserialization-differs")
		w.Violate("C07:reserialization-differs", human, fmt.Sprintf("%x (%v)", ser2, err), fmt.Sprintf("%x", ser))
		return false
	}
	// the loaded token owns its bytes: what the caller does afterwards with the buffer it passed
	// to Unmarshal, or with a slice Serialize returned, does not reach the token
	buf := append([]byte{}, ser...)
	if own, err := biscuit.Unmarshal(buf); err == nil {
		for k := range buf {
			buf[k] ^= 0xff
		}
		out, _ := own.Serialize()
		same := bytes.Equal(out, ser)
		for k := range out {
			out[k] ^= 0xff
		}
		again, _ := own.Serialize()
		if !same || !bytes.Equal(again, ser) {
			w.Class("token-shares-the-callers-buffer")
			w.Violate("C07:token-shares-a-byte-buffer-with-its-caller", human, fmt.Sprintf("after the caller overwrote its buffers the token serializes to %x", again), fmt.Sprintf("%x", ser))
			return false
		}
	}
	if re.String() != tok.String() {
		w.Class("reloaded-content-differs")
		w.Violate("C07:reloaded-token-prints-differently", human, re.String(), tok.String())
		return false
	}
	a, b := re.RevocationIds(), tok.RevocationIds()
	if len(a) != len(b) {
		w.Violate("C07:reloaded-revocation-ids", human, fmt.Sprint(len(a)), fmt.Sprint(len(b)))
		return false
	}
	for k := range a {
		if !bytes.Equal(a[k], b[k]) {
			w.Violate("C07:reloaded-revocation-ids", human, fmt.Sprintf("%x", a[k]), fmt.Sprintf("%x", b[k]))
			return false
		}
	}
	if idStr(re.RootKeyID()) != idStr(tok.RootKeyID()) || idStr(tok.RootKeyID()) != idStr(id) {
		w.Violate("C07:reloaded-root-key-id", human, idStr(re.RootKeyID())+"/"+idStr(tok.RootKeyID()), idStr(id))
		return false
	}
	for pi, p := range c07Panel {
		o1 := authorize(tok, p.blk, p.pol)
		o2 := authorize(re, p.blk, p.pol)
		if o1.String() != o2.String() {
			w.Class("reloaded-behaviour-differs")
			w.Violate("C07:reloaded-token-authorizes-differently", fmt.Sprintf("%s panel %d", human, pi), o2.String(), o1.String())
			return false
		}
	}
	return true
}

func c07Build(authority refdl.Block, blocks []refdl.Block, id *uint32, sealed bool, reloadAfter int) (*biscuit.Biscuit, error) {
	_, priv := hx.Keys(1)
	var b biscuit.Builder
	if id != nil {
		b = biscuit.NewBuilder(priv, biscuit.WithRNG(hx.NewRNG(11)), biscuit.WithRootKeyID(*id))
	} else {
		b = biscuit.NewBuilder(priv, biscuit.WithRNG(hx.NewRNG(11)))
	}
	if err := hx.FillBuilder(b, authority); err != nil {
		return nil, err
	}
	tok, err := b.Build()
	if err != nil {
		return nil, err
	}
	reload := func() error {
		ser, err := tok.Serialize()
		if err != nil {
			return err
		}
		tok, err = biscuit.Unmarshal(ser)
		return err
	}
	if reloadAfter == 0 {
		if err := reload(); err != nil {
			return nil, err
		}
	}
	for i, blk := range blocks {
		bb := tok.CreateBlock()
		if err := hx.FillBlock(bb, blk); err != nil {
			return nil, err
		}
		tok, err = tok.Append(hx.NewRNG(uint64(20+i)), bb.Build())
		if err != nil {
			return nil, err
		}
		if reloadAfter == i+1 {
			if err := reload(); err != nil {
				return nil, err
			}
		}
	}
	if sealed {
		tok, err = tok.Seal(hx.NewRNG(30))
		if err != nil {
			return nil, err
		}
	}
	return tok, nil
}

func init() {
	register(&sup.Check{
		ID:        "C07",
		Level:     "model_checking",
		Technique: "explicit enumeration of build/append/seal/serialize/unmarshal histories over a feature-covering item alphabet on the real code; Serialize() decoded by an independent protobuf reader and compared with the supplied Datalog",
		Rule:      "contents: every block made of <= 2 (thorough: <= 3) of 48 items (one per term type, set element type, operator, nesting shape, default/fresh/empty string) as authority block and as appended block after three different parents (shared, disjoint, no symbols), with and without context and root key id; histories: every sequence of 1-3 blocks of a 5-block alphabet whose blocks reuse each other's strings, x sealed/unsealed x every position of a Serialize+Unmarshal. Oracle: independent decoding + published symbol rules give back exactly the supplied facts/rules/checks/context, version 3; Unmarshal(bytes) prints the same, has the same revocation ids and key id, authorizes a 3-authorizer panel the same, and re-serializes byte-identically; harness-signed tokens whose block version is absent/0/1/2/4/2^32-1 are rejected. states = tokens checked, transitions = builder/append/seal/reload operations. Non-trivial = block with at least one item; distinct by construction.",
		Assume:    []string{"internal/wire transcribes the published schema.proto and default symbol table", "duplicate facts are refused by the builders (ErrDuplicateFact) and are not generated"},
		Spaces: func(c *sup.Ctx) []*sup.Space {
			contents := itemSets(c07Items, 2)
			if c.Thorough() {
				contents = append(contents, itemTriples(c07Items)...)
			}
			parents := []refdl.Block{{}, {Facts: []refdl.Atom{atom("f", rx.Str("fresh")), atom("pair", rx.Str("x"), rx.Int(1))}}, {Facts: []refdl.Atom{atom("other", rx.Str("unrelated"))}}}
			nc := int64(len(contents))
			id7 := uint32(7)
			single := &sup.Space{Name: "block-contents", Size: func(*sup.Ctx) int64 { return nc * 4 * 2 }, Run: func(i int64, w *sup.W) {
				withCtx := i%2 == 1
				i /= 2
				pos := int(i % 4) // 0: authority; 1..3: appended after parent pos-1
				blk := blockOf(contents[i/4])
				if withCtx {
					blk.Context = "some context"
				}
				var id *uint32
				if withCtx {
					id = &id7
				}
				var supplied []refdl.Block
				if pos == 0 {
					supplied = []refdl.Block{blk}
				} else {
					supplied = []refdl.Block{parents[pos-1], blk}
				}
				human := fmt.Sprintf("blocks %s id=%s", blocksString(supplied), idStr(id))
				tok, err := c07Build(supplied[0], supplied[1:], id, false, -1)
				if err != nil {
					w.Class("build-error")
					w.Violate("C07:build-failed", human, err.Error(), "a token")
					return
				}
				w.Stats().States++
				w.Stats().Transitions += int64(len(supplied))
				if c07CheckToken(w, tok, supplied, id, human) {
					w.Class(fmt.Sprintf("faithful:position-%d", pos))
					if len(contents[i/4]) > 0 {
						w.NontrivialByIndex()
					}
					if w.WantSample(fmt.Sprint(pos)) {
						w.Sample(fmt.Sprint(pos), map[string]string{"supplied": human})
					}
				}
			}}
			// histories over the shared-symbol alphabet
			var seqs [][]int
			for a := range c07Shared {
				seqs = append(seqs, []int{a})
				for b := range c07Shared {
					seqs = append(seqs, []int{a, b})
					for d := range c07Shared {
						seqs = append(seqs, []int{a, b, d})
					}
				}
			}
			ns := int64(len(seqs))
			hist := &sup.Space{Name: "histories-with-shared-symbols", Size: func(*sup.Ctx) int64 { return ns * 2 * 5 * 2 }, Run: func(i int64, w *sup.W) {
				withID := i%2 == 1
				i /= 2
				reloadAfter := int(i%5) - 1 // -1 never, 0 after build, k after k-th append
				i /= 5
				sealed := i%2 == 1
				seq := seqs[i/2]
				var supplied []refdl.Block
				for _, k := range seq {
					supplied = append(supplied, c07Shared[k])
				}
				var id *uint32
				if withID {
					id = &id7
				}
				human := fmt.Sprintf("Build(%s) id=%s reload-after-step=%d sealed=%v", blocksString(supplied), idStr(id), reloadAfter, sealed)
				tok, err := c07Build(supplied[0], supplied[1:], id, sealed, reloadAfter)
				if err != nil {
					w.Class("build-error")
					w.Violate("C07:build-failed", human, err.Error(), "a token")
					return
				}
				w.Stats().States++
				w.Stats().Transitions += int64(len(supplied) + 2)
				if c07CheckToken(w, tok, supplied, id, human) {
					w.Class(fmt.Sprintf("faithful-%d-blocks", len(seq)))
					w.NontrivialByIndex()
					if w.WantSample(fmt.Sprint(len(seq))) {
						w.Sample(fmt.Sprint(len(seq)), map[string]string{"history": human})
					}
				}
			}}
			versions := []*uint32{nil, u32(0), u32(1), u32(2), u32(3), u32(4), u32(4294967295)}
			ver := &sup.Space{Name: "unsupported-versions", Size: func(*sup.Ctx) int64 { return int64(len(versions)) * 3 * 2 * 3 }, Run: func(i int64, w *sup.W) {
				// what the block that declares the version carries: Datalog, nothing, a context only
				carries := int(i % 3)
				i /= 3
				sealed := i%2 == 1
				i /= 2
				pos := int(i % 3)
				v := versions[i/3]
				blocks := []refdl.Block{c07Shared[0], c07Shared[1], c07Shared[2]}
				switch carries {
				case 1:
					blocks[pos] = refdl.Block{}
				case 2:
					blocks[pos] = refdl.Block{Context: "only a context"}
				}
				tab := &wire.Table{}
				var raw [][]byte
				for k, b := range blocks {
					wbk := wire.EncodeBlock(tab, b)
					if k == pos {
						wbk.Version = v
					}
					raw = append(raw, wbk.Encode())
				}
				_, priv := hx.Keys(1)
				env := wire.SignChain(ed25519.PrivateKey(priv), raw, 500, sealed)
				ser := env.Encode()
				human := fmt.Sprintf("harness-signed 3-block token, block %d (%s) declares version %s, sealed=%v", pos, []string{"with Datalog content", "empty", "context only"}[carries], idStr(v), sealed)
				w.Stats().States++
				w.Stats().Transitions++
				tok, err := biscuit.Unmarshal(ser)
				supported := v != nil && *v == 3
				w.NontrivialByIndex()
				switch {
				case supported && err != nil:
					w.Class("v3-rejected")
					w.Violate("C07:version-3-rejected", human, err.Error(), "accepted")
				case !supported && err == nil && tok != nil:
					w.Class("unsupported-accepted")
					w.Violate("C07:unsupported-version-accepted", human, "Unmarshal returned a token", "an error")
				case supported:
					w.Class("v3-accepted")
				default:
					w.Class("rejected")
				}
			}}
			fork := &sup.Space{Name: "forked-appends", Size: func(*sup.Ctx) int64 { return 9 * 2 }, Run: func(i int64, w *sup.W) {
				n := int(i / 2)
				reload := i%2 == 1
				chain := []refdl.Block{c07Shared[0]}
				for k := 0; k < n; k++ {
					chain = append(chain, refdl.Block{Facts: []refdl.Atom{atom("step", rx.Int(int64(k)), rx.Str(fmt.Sprintf("s%d", k)))}})
				}
				ra := -1
				if reload {
					ra = n
				}
				parent, err := c07Build(chain[0], chain[1:], nil, false, ra)
				if err != nil {
					w.Violate("C07:build-failed", "fork parent", err.Error(), "a token")
					return
				}
				kids := []refdl.Block{{Facts: []refdl.Atom{atom("holder", rx.Str("a"))}}, {Facts: []refdl.Atom{atom("holder", rx.Str("b"))}, Checks: []refdl.Check{chk(q(atom("owner", vx, vy)))}}, {Rules: []refdl.Rule{rule(atom("reader", vx), atom("owner", vx, vy))}}}
				var toks []*biscuit.Biscuit
				for k, kb := range kids {
					bb := parent.CreateBlock()
					if err := hx.FillBlock(bb, kb); err != nil {
						w.Violate("C07:build-failed", "fork child", err.Error(), "a block")
						return
					}
					t, err := parent.Append(hx.NewRNG(uint64(700+k)), bb.Build())
					if err != nil {
						w.Violate("C07:build-failed", "fork child", err.Error(), "a token")
						return
					}
					toks = append(toks, t)
					w.Stats().Transitions++
				}
				// all children are checked after all of them exist
				for k, t := range toks {
					supplied := append(append([]refdl.Block{}, chain...), kids[k])
					human := fmt.Sprintf("parent with %d appended blocks (reloaded=%v) attenuated three times; child %d", n, reload, k)
					w.Stats().States++
					if !c07CheckToken(w, t, supplied, nil, human) {
						return
					}
				}
				if !c07CheckToken(w, parent, chain, nil, fmt.Sprintf("parent with %d appended blocks after three attenuations", n)) {
					return
				}
				w.Class("faithful")
				w.NontrivialByIndex()
			}}
			return []*sup.Space{single, hist, ver, fork, c07OverlapSpace(), c07DecoderSpace(), c07UnencodableSpace(), c07ErrorsSpace(), c07SequentialSpace()}
		},
	})
}
