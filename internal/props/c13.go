package props

import (
	"fmt"
	"strings"

	biscuit "github.com/biscuit-auth/biscuit-go/v2"

	"verif/internal/hx"
	"verif/internal/refdl"
	"verif/internal/sup"
)

// C13 — Reset gives a clean authorizer. Every history of 2 (quick) or 3
// (thorough) rounds over a 24-content alphabet and 3 actions is replayed on
// one reused authorizer; the last round must be indistinguishable from the
// same round on a fresh authorizer.

type c13Content struct {
	blk refdl.Block
	pol []refdl.Policy
}

var c13Contents = func() []c13Content {
	facts := [][]refdl.Atom{{fOpRead}, {fOpWrite}, {fOpRead, fResF}, {fResG, fAdmin}}
	// the last extra is a rule whose head variable is not bound by its body: evaluation fails
	extras := []refdl.Block{{}, {Rules: []refdl.Rule{rAllowed}}, {Checks: []refdl.Check{chk(q(fOpRead))}}, {Rules: []refdl.Rule{rule(atom("allowed", vy), atom("operation", vx))}}}
	pols := [][]refdl.Policy{{allow(qTrue)}, {deny(q(fOpWrite)), allow(q(fAllowedF)), deny(q(fAdmin))}}
	var out []c13Content
	for _, f := range facts {
		for _, e := range extras {
			for _, p := range pols {
				out = append(out, c13Content{blk: refdl.Block{Facts: f, Rules: e.Rules, Checks: e.Checks}, pol: p})
			}
		}
	}
	return out
}()

type c13Tok struct {
	authority refdl.Block
	blocks    []refdl.Block
}

var c13Tokens = []c13Tok{
	{authority: refdl.Block{Checks: []refdl.Check{chk(q(fOpRead))}}},
	{authority: refdl.Block{Facts: []refdl.Atom{fRightR}, Rules: []refdl.Rule{rAllowed2}}},
	{authority: refdl.Block{Facts: []refdl.Atom{fUser}}, blocks: []refdl.Block{{Facts: []refdl.Atom{atom("resource", sF)}, Checks: []refdl.Check{chk(q(fResF))}}}},
	{},
}

var c13Panel = []refdl.Rule{
	rule(atom("out", vx), atom("operation", vx)),
	rule(atom("out", vx), atom("allowed", vx)),
	rule(atom("out", vx), atom("resource", vx)),
	rule(atom("out"), fAdmin),
}

const (
	c13Authorize = iota
	c13Query
	c13QueryAuthorize
	c13None // content added, nothing evaluated, then Reset
	c13NActions
)

// c13Round runs one round on an authorizer and returns the observation.
func c13Round(a biscuit.Authorizer, c c13Content, action int) string {
	var obs []string
	// actions 4..7: the round's content arrives as a snapshot (SerializePolicies on a scratch
	// authorizer, LoadPolicies here) instead of through the Add* methods
	if action >= c13NActions {
		action -= c13NActions
		scratch, _ := biscuit.NewVerifier(a.Biscuit(), hx.LongLimits)
		hx.Load(scratch, c.blk, c.pol)
		snap, err := scratch.SerializePolicies()
		if err != nil {
			return "snapshot-error: " + err.Error()
		}
		if err := a.LoadPolicies(snap); err != nil {
			obs = append(obs, "load-error")
		}
	} else {
		hx.Load(a, c.blk, c.pol)
	}
	panel := func() {
		for _, qr := range c13Panel {
			ks, err := hx.QuerySet(a, qr)
			if err != nil {
				obs = append(obs, "error")
			} else {
				obs = append(obs, hx.JoinKeys(ks))
			}
		}
	}
	if action == c13Query || action == c13QueryAuthorize {
		panel()
	}
	if action == c13Authorize || action == c13QueryAuthorize {
		err := a.Authorize()
		o := hx.Classify(err)
		if fc := hx.FailedChecks(err); len(fc) > 0 {
			o += "[" + strings.Join(fc, ",") + "]"
		}
		obs = append(obs, o)
		panel()
	}
	return strings.Join(obs, " ")
}

func init() {
	register(&sup.Check{
		ID:        "C13",
		Level:     "model_checking",
		Technique: "explicit enumeration of all (add content, authorize/query, reset) histories up to depth 2/3 on the real authorizer, each final round compared with a fresh authorizer (differential oracle)",
		Rule:      "all histories of 2 (quick) / 2 and 3 (thorough) rounds; a round = one of 32 contents (4 fact sets x {nothing, a rule, a check, a rule whose evaluation fails} x 2 ordered policy lists) x one of 4 actions (Authorize, Query panel, Query then Authorize, nothing) followed by Reset; 4 tokens (read-only check, rule-bearing, with a block, empty). Every earlier-round outcome occurs (ok, denied, no match, failed check). No merging of histories is assumed: the full product is enumerated. Non-trivial = the earlier rounds' content differs from the last round's; distinct by construction. states = histories, transitions = rounds executed on the reused authorizer.",
		Assume:    []string{"differential oracle: a fresh NewVerifier for the same token given only the last round's content"},
		Spaces: func(c *sup.Ctx) []*sup.Space {
			mk := func(name string, rounds int, contents []c13Content) *sup.Space {
				c13Contents := contents
				const nact = c13NActions * 2 // direct, and via a snapshot
				per := int64(len(contents)) * nact
				size := int64(len(c13Tokens))
				for r := 0; r < rounds; r++ {
					size *= per
				}
				return &sup.Space{Name: name, Size: func(*sup.Ctx) int64 { return size }, Run: func(i int64, w *sup.W) {
					var hist [][2]int
					for r := 0; r < rounds; r++ {
						k := i % per
						i /= per
						hist = append(hist, [2]int{int(k / nact), int(k % nact)})
					}
					// hist[0] is the LAST round (varies fastest), so a token's fresh observations are cacheable
					tk := c13Tokens[i]
					tok, err := cachedToken(w, tk.authority, tk.blocks)
					if err != nil {
						w.Class("build-error")
						w.Violate("C13:token-build-failed", tk.authority.String(), err.Error(), "a token")
						return
					}
					a, _ := biscuit.NewVerifier(tok, hx.LongLimits)
					var last string
					var desc []string
					for r := rounds - 1; r >= 0; r-- {
						h := hist[r]
						last = c13Round(a, c13Contents[h[0]], h[1])
						a.Reset()
						desc = append(desc, fmt.Sprintf("round(content=%s policies=%v action=%s)", c13Contents[h[0]].blk, c13Contents[h[0]].pol, []string{"Authorize", "Query", "Query;Authorize", "nothing", "LoadPolicies(snapshot);Authorize", "LoadPolicies(snapshot);Query", "LoadPolicies(snapshot);Query;Authorize", "LoadPolicies(snapshot)"}[h[1]]))
						w.Stats().Transitions++
					}
					w.Stats().States++
					fresh, _ := biscuit.NewVerifier(tok, hx.LongLimits)
					want := c13Round(fresh, c13Contents[hist[0][0]], hist[0][1])
					human := func() string {
						return fmt.Sprintf("token(authority=%s blocks=%v): %s", tk.authority, tk.blocks, strings.Join(desc, " ; Reset ; "))
					}
					if last != want {
						w.Class("leak")
						w.Violate("C13:round-differs-from-fresh-authorizer", human(), "reused authorizer, last round: "+last, "fresh authorizer: "+want)
						return
					}
					cls := strings.SplitN(want, " ", 2)[0]
					switch hist[0][1] % c13NActions {
					case c13Query:
						cls = "query-only"
					case c13QueryAuthorize:
						cls = "query-then-authorize"
					case c13None:
						cls = "no-evaluation"
					}
					if strings.HasPrefix(cls, "other-failure") {
						cls = "other-failure"
					}
					if hist[0][1] >= c13NActions {
						cls = "via-snapshot:" + cls
					}
					w.Class(cls)
					differs := false
					for r := 1; r < rounds; r++ {
						if hist[r][0] != hist[0][0] {
							differs = true
						}
					}
					if differs {
						w.NontrivialByIndex()
					}
					if w.WantSample(cls) {
						w.Sample(cls, map[string]string{"history": human(), "last-round": last})
					}
				}}
			}
			sp := []*sup.Space{mk("two-rounds", 2, c13Contents)}
			if c.Thorough() {
				// every second content: both fact-set halves, all four extras, both policy lists
				var half []c13Content
				for i, x := range c13Contents {
					if (i/2)%2 == 0 || i%8 == 7 {
						half = append(half, x)
					}
				}
				sp = append(sp, mk(fmt.Sprintf("three-rounds-%d-contents", len(half)), 3, half))
			} else {
				var sub []c13Content
				for i, x := range c13Contents {
					if i%8 == 0 || i == 7 || i == 21 {
						sub = append(sub, x)
					}
				}
				sp = append(sp, mk("three-rounds-6-contents", 3, sub))
			}
			// also: Reset twice, and Reset before any use
			return sp
		},
	})
}
