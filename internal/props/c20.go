package props

import (
	"bytes"
	"crypto/ed25519"
	"errors"
	"fmt"
	"io"

	biscuit "github.com/biscuit-auth/biscuit-go/v2"
	"github.com/biscuit-auth/biscuit-go/v2/datalog"

	"verif/internal/hx"
	"verif/internal/sup"
	"verif/internal/wire"
)

// C20 — entropy failure is reported. Fault enumeration over the answers of the
// supplied io.Reader.

var errCustom = errors.New("entropy source failed")

// scriptReader is a deterministic byte stream with a scripted failure.
type scriptReader struct {
	budget    int   // bytes it can still deliver before failing (-1: never fails)
	err       error // what it returns once the budget is used up
	together  bool  // return the error together with the last delivered bytes
	chunk     int   // max bytes per call (0: as many as asked)
	shortAt   int   // call index at which a short read happens (-1: none)
	shortLen  int   // bytes delivered by that short read
	calls     int
	delivered []byte
	failed    bool
	n         byte
}

func (r *scriptReader) Read(p []byte) (int, error) {
	call := r.calls
	r.calls++
	want := len(p)
	if r.chunk > 0 && want > r.chunk {
		want = r.chunk
	}
	if call == r.shortAt && want > r.shortLen {
		want = r.shortLen
	}
	if r.budget >= 0 && want >= r.budget {
		// the source runs dry during (or exactly at the end of) this call
		n := r.budget
		for i := 0; i < n; i++ {
			r.n++
			p[i] = r.n*37 + 11
		}
		r.delivered = append(r.delivered, p[:n]...)
		r.budget = 0
		if n > 0 && !r.together {
			return n, nil // error comes with the next call
		}
		r.failed = true
		return n, r.err
	}
	for i := 0; i < want; i++ {
		r.n++
		p[i] = r.n*37 + 11
	}
	r.delivered = append(r.delivered, p[:want]...)
	if r.budget > 0 {
		r.budget -= want
	}
	return want, nil
}

type c20Behaviour struct {
	budget, errKind int
	together        bool
	chunk           int
	shortAt         int
	shortLen        int
}

func (b c20Behaviour) reader() *scriptReader {
	errs := []error{errCustom, io.EOF, io.ErrUnexpectedEOF}
	return &scriptReader{budget: b.budget, err: errs[b.errKind], together: b.together, chunk: b.chunk, shortAt: b.shortAt, shortLen: b.shortLen}
}

func (b c20Behaviour) String() string {
	s := "never fails"
	if b.budget >= 0 {
		s = fmt.Sprintf("fails with %v after %d bytes (error returned %s)", []string{"custom error", "io.EOF", "io.ErrUnexpectedEOF"}[b.errKind], b.budget, map[bool]string{true: "with the last bytes", false: "by the next call"}[b.together])
	}
	if b.chunk > 0 {
		s += fmt.Sprintf(", at most %d bytes per call", b.chunk)
	}
	if b.shortAt >= 0 {
		s += fmt.Sprintf(", call %d delivers only %d bytes", b.shortAt, b.shortLen)
	}
	return s
}

func c20Behaviours(thorough bool) []c20Behaviour {
	var out []c20Behaviour
	budgets := []int{-1}
	for k := 0; k <= 40; k++ {
		budgets = append(budgets, k)
	}
	chunks := []int{0, 1, 7}
	shorts := [][2]int{{-1, 0}, {0, 0}, {0, 1}, {0, 31}, {1, 0}, {1, 16}, {2, 5}, {3, 1}}
	if thorough {
		// every chunk size up to one more than the seed, every short read of every length at calls 0..3
		chunks = []int{0}
		for c := 1; c <= 33; c++ {
			chunks = append(chunks, c)
		}
		shorts = [][2]int{{-1, 0}}
		for call := 0; call <= 3; call++ {
			for l := 0; l <= 31; l++ {
				shorts = append(shorts, [2]int{call, l})
			}
		}
	}
	for _, bud := range budgets {
		for ek := 0; ek < 3; ek++ {
			for _, tog := range []bool{true, false} {
				for _, chunk := range chunks {
					for _, sa := range shorts {
						if bud == -1 && (ek > 0 || !tog) {
							continue
						}
						out = append(out, c20Behaviour{bud, ek, tog, chunk, sa[0], sa[1]})
					}
				}
			}
		}
	}
	return out
}

const (
	c20Build = iota
	c20New
	c20Append
	c20Seal
	c20BuildKeyID
	c20BuildSharedOption // one WithRNG option value configures two builders; the first token is minted from a healthy prefix of the source
	c20NOps
)

// c20Chain reads from first until it is exhausted, then from second.
type c20Chain struct {
	first, second io.Reader
}

func (c *c20Chain) Read(p []byte) (int, error) {
	if c.first != nil {
		n, err := c.first.Read(p)
		if n > 0 || err == nil {
			return n, nil
		}
		c.first = nil
	}
	return c.second.Read(p)
}

var c20OpNames = []string{"Builder.Build(WithRNG)", "biscuit.New(rng)", "Append(rng)", "Seal(rng)", "Builder.Build(WithRNG, WithRootKeyID)", "second Builder.Build through a shared WithRNG option"}

func init() {
	register(&sup.Check{
		ID:        "C20",
		Level:     "fault_enumeration",
		Technique: "exhaustive enumeration of the supplied io.Reader's answers (failure after every byte count 0..40 x 3 error values x 2 error-delivery styles x 3 chunkings x 8 short-read scripts) for every operation that takes a random source, on the real code",
		Rule:      "for Builder.Build(WithRNG), biscuit.New, Append and Seal: the reader fails after k delivered bytes for every k in 0..40 (k < 32 is a failure while key material is drawn; k >= 32 is not), with a custom error / io.EOF / io.ErrUnexpectedEOF, returned with the last bytes or by the next call, delivering all / 1 / 7 bytes per call, optionally with one short read (0, 1, 5, 16 or 31 bytes at call 0..3): 5928 behaviours per operation (thorough: every chunk size 1..33 and every short read of 0..31 bytes at calls 0..3: 1.1 million behaviours per operation). Oracle: failure before 32 delivered bytes => error, no token, no panic (Seal needs no randomness and must succeed); a returned token announces the key derived from exactly the first 32 delivered bytes, carries that seed as proof, verifies under the root and authorizes a trivial policy. Non-trivial = the reader deviates from 'deliver everything'; distinct by construction.",
		Assume:    []string{"crypto/ed25519.GenerateKey reads exactly 32 bytes from the supplied reader with io.ReadFull (Go 1.23 behaviour, checked by the 'never fails' behaviours)"},
		Spaces: func(c *sup.Ctx) []*sup.Space {
			behs := c20Behaviours(c.Thorough())
			nb := int64(len(behs))
			return []*sup.Space{{Name: "reader-faults", Size: func(*sup.Ctx) int64 { return nb * c20NOps }, Run: func(i int64, w *sup.W) {
				op := int(i / nb)
				beh := behs[i%nb]
				rd := beh.reader()
				pub, priv := hx.Keys(1)
				var tok *biscuit.Biscuit
				var err error
				human := fmt.Sprintf("%s with a reader that %s", c20OpNames[op], beh)
				var parent *biscuit.Biscuit
				var parentBytes []byte
				if op == c20Append || op == c20Seal {
					b := biscuit.NewBuilder(priv, biscuit.WithRNG(hx.NewRNG(3)))
					hx.FillBuilder(b, poolP)
					parent, err = b.Build()
					if err != nil {
						w.Violate("C20:setup-failed", human, err.Error(), "a parent token")
						return
					}
					parentBytes, _ = parent.Serialize()
				}
				var sharedOpt = biscuit.WithRNG(&c20Chain{first: bytes.NewReader(bytes.Repeat([]byte{0x5a}, 32)), second: rd})
				if op == c20BuildSharedOption {
					b := biscuit.NewBuilder(priv, sharedOpt)
					hx.FillBuilder(b, poolQ)
					parent, err = b.Build()
					if err != nil {
						w.Violate("C20:setup-failed", human, err.Error(), "a first token from the healthy prefix of the source")
						return
					}
					parentBytes, _ = parent.Serialize()
				}
				r, stack := sup.Catch(func() {
					switch op {
					case c20BuildSharedOption:
						b := biscuit.NewBuilder(priv, sharedOpt)
						hx.FillBuilder(b, poolP)
						tok, err = b.Build()
					case c20Build:
						b := biscuit.NewBuilder(priv, biscuit.WithRNG(rd))
						hx.FillBuilder(b, poolP)
						tok, err = b.Build()
					case c20BuildKeyID:
						b := biscuit.NewBuilder(priv, biscuit.WithRNG(rd), biscuit.WithRootKeyID(7))
						hx.FillBuilder(b, poolP)
						tok, err = b.Build()
					case c20New:
						bb := biscuit.NewBlockBuilder(&datalog.SymbolTable{})
						hx.FillBlock(bb, poolP)
						tok, err = biscuit.New(rd, priv, &datalog.SymbolTable{}, bb.Build())
					case c20Append:
						bb := parent.CreateBlock()
						hx.FillBlock(bb, poolQ)
						tok, err = parent.Append(rd, bb.Build())
					case c20Seal:
						tok, err = parent.Seal(rd)
					}
				})
				if r != nil {
					w.Class("panic")
					w.Violate("C20:panic:"+sup.PanicSig(stack), human, fmt.Sprintf("panic: %v", r), "an error")
					return
				}
				if beh.budget >= 0 || beh.chunk > 0 || beh.shortAt >= 0 {
					w.NontrivialByIndex()
				}
				// whatever the outcome, the token the operation was applied to is what it was: it still
				// verifies, serializes to the same bytes, and can be extended with a healthy source
				if parent != nil {
					if _, e := parent.AuthorizerFor(biscuit.WithSingularRootPublicKey(pub), hx.LongLimits); e != nil {
						w.Class("parent-damaged")
						w.Violate("C20:parent-token-damaged-by-"+map[int]string{c20Append: "append", c20Seal: "seal", c20BuildSharedOption: "a-later-build"}[op], human, "the parent no longer verifies: "+e.Error(), "unchanged")
						return
					}
					if now, _ := parent.Serialize(); !bytes.Equal(now, parentBytes) {
						w.Class("parent-damaged")
						w.Violate("C20:parent-token-damaged-by-"+map[int]string{c20Append: "append", c20Seal: "seal", c20BuildSharedOption: "a-later-build"}[op], human, fmt.Sprintf("the parent now serializes to %x", now), fmt.Sprintf("%x", parentBytes))
						return
					}
					bb := parent.CreateBlock()
					hx.FillBlock(bb, poolQ)
					retry, e := parent.Append(hx.NewRNG(77), bb.Build())
					if e == nil {
						_, e = retry.AuthorizerFor(biscuit.WithSingularRootPublicKey(pub), hx.LongLimits)
					}
					if e != nil {
						w.Class("parent-damaged")
						w.Violate("C20:append-with-a-healthy-source-fails-afterwards", human, e.Error(), "a token that verifies")
						return
					}
				}
				if op == c20Seal {
					if err != nil || tok == nil {
						w.Class("seal-needs-entropy")
						w.Violate("C20:seal-failed", human, fmt.Sprint(err), "Seal draws no randomness and succeeds")
						return
					}
					if _, e := tok.AuthorizerFor(biscuit.WithSingularRootPublicKey(pub), hx.LongLimits); e != nil {
						w.Violate("C20:sealed-token-does-not-verify", human, e.Error(), "verifies")
						return
					}
					w.Class("sealed")
					return
				}
				starved := len(rd.delivered) < 32
				if starved {
					if err == nil || tok != nil {
						w.Class("token-from-starved-source")
						w.Violate("C20:token-returned-although-source-failed", human, fmt.Sprintf("token=%v err=%v after %d delivered bytes", tok != nil, err, len(rd.delivered)), "an error and no token")
						return
					}
					w.Class("error-reported")
					if w.WantSample("error-reported") {
						w.Sample("error-reported", map[string]string{"case": human, "error": err.Error()})
					}
					return
				}
				if err != nil || tok == nil {
					w.Class("spurious-error")
					w.Violate("C20:error-although-32-bytes-were-delivered", human, fmt.Sprint(err), "a token")
					return
				}
				seed := rd.delivered[:32]
				wantPub := ed25519.NewKeyFromSeed(seed).Public().(ed25519.PublicKey)
				ser, _ := tok.Serialize()
				env, derr := wire.DecodeEnvelope(ser)
				if derr != nil {
					w.Violate("C20:undecodable-token", human, derr.Error(), "decodable")
					return
				}
				last := env.Authority
				if len(env.Blocks) > 0 {
					last = env.Blocks[len(env.Blocks)-1]
				}
				if !bytes.Equal(last.Key, wantPub) || !bytes.Equal(env.Proof.Secret, seed) {
					w.Class("degenerate-key")
					w.Violate("C20:key-not-derived-from-delivered-bytes", human, fmt.Sprintf("announced key %x, proof %x", last.Key, env.Proof.Secret), fmt.Sprintf("key %x from seed %x", wantPub, seed))
					return
				}
				if op == c20BuildKeyID && (tok.RootKeyID() == nil || *tok.RootKeyID() != 7) {
					w.Violate("C20:option-lost", human, "root key id missing", "7")
					return
				}
				a, e := tok.AuthorizerFor(biscuit.WithSingularRootPublicKey(pub), hx.LongLimits)
				if e != nil {
					w.Violate("C20:token-does-not-verify", human, e.Error(), "verifies")
					return
				}
				a.AddFact(hx.Fact(fOpRead))
				a.AddPolicy(biscuit.DefaultAllowPolicy)
				if e := a.Authorize(); e != nil {
					w.Violate("C20:token-does-not-authorize", human, e.Error(), "authorizes a trivial policy")
					return
				}
				w.Class("token-with-derived-key")
				if w.WantSample("token") {
					w.Sample("token", map[string]string{"case": human, "calls": fmt.Sprint(rd.calls), "next_key": fmt.Sprintf("%x", last.Key)})
				}
			}}}
		},
	})
}
