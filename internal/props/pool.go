package props

import (
	"crypto/ed25519"
	"fmt"

	biscuit "github.com/biscuit-auth/biscuit-go/v2"

	"verif/internal/hx"
	"verif/internal/refdl"
	rx "verif/internal/refexpr"
	"verif/internal/wire"
)

// The honest token pool shared by C01, C09, C17: every token the library
// produces by Build -> Append* -> Seal? for two roots, payloads {P,Q}, one to
// three blocks, with a deterministic (but distinct per operation) RNG.

var (
	poolP = refdl.Block{Facts: []refdl.Atom{atom("right", rx.Str("file1"), sRead)}, Checks: []refdl.Check{chk(q(atom("operation", sRead)))}}
	poolQ = refdl.Block{Facts: []refdl.Atom{atom("owner", rx.Str("alice"))}, Rules: []refdl.Rule{rule(atom("allowed", vx), atom("owner", vx))}}
)

type poolToken struct {
	Name    string
	Root    int // 1 or 2
	Content []string
	Sealed  bool
	Tok     *biscuit.Biscuit
	Bytes   []byte
	Env     *wire.Envelope
}

func poolContent(name string) refdl.Block {
	if name == "P" {
		return poolP
	}
	return poolQ
}

// buildPool constructs the honest pool. maxBlocks is 1..3.
func buildPool(maxBlocks int) ([]*poolToken, error) {
	var out []*poolToken
	seqs := [][]string{}
	var rec func(cur []string)
	rec = func(cur []string) {
		if len(cur) > 0 {
			seqs = append(seqs, append([]string{}, cur...))
		}
		if len(cur) == maxBlocks {
			return
		}
		for _, n := range []string{"P", "Q"} {
			rec(append(cur, n))
		}
	}
	rec(nil)
	for root := 1; root <= 2; root++ {
		for _, seq := range seqs {
			_, priv := hx.Keys(byte(root))
			b := biscuit.NewBuilder(priv, biscuit.WithRNG(hx.NewRNG(uint64(root*1000))))
			if err := hx.FillBuilder(b, poolContent(seq[0])); err != nil {
				return nil, err
			}
			tok, err := b.Build()
			if err != nil {
				return nil, err
			}
			for i, n := range seq[1:] {
				bb := tok.CreateBlock()
				if err := hx.FillBlock(bb, poolContent(n)); err != nil {
					return nil, err
				}
				// the RNG seed depends on the whole prefix so that different histories draw different keys
				seed := uint64(root*1000 + (i+1)*50)
				for _, x := range seq[:i+2] {
					seed = seed*3 + uint64(x[0])
				}
				tok, err = tok.Append(hx.NewRNG(seed), bb.Build())
				if err != nil {
					return nil, err
				}
			}
			for _, sealed := range []bool{false, true} {
				t := tok
				if sealed {
					t, err = tok.Seal(hx.NewRNG(7))
					if err != nil {
						return nil, err
					}
				}
				ser, err := t.Serialize()
				if err != nil {
					return nil, err
				}
				env, err := wire.DecodeEnvelope(ser)
				if err != nil {
					return nil, fmt.Errorf("reference decoder rejects a library token: %v", err)
				}
				name := fmt.Sprintf("R%d:%v", root, seq)
				if sealed {
					name += ":sealed"
				}
				out = append(out, &poolToken{Name: name, Root: root, Content: seq, Sealed: sealed, Tok: t, Bytes: ser, Env: env})
			}
		}
	}
	return out, nil
}

func rootPub(n int) ed25519.PublicKey {
	if n == 0 {
		pub, _ := wire.SeedKey(9000) // the attacker's root
		return pub
	}
	pub, _ := hx.Keys(byte(n))
	return pub
}

func attackerKey() (ed25519.PublicKey, ed25519.PrivateKey) { return wire.SeedKey(9000) }

// libAccepts: Unmarshal followed by AuthorizerFor under the given root key.
func libAccepts(ser []byte, root ed25519.PublicKey) (bool, string) {
	tok, err := biscuit.Unmarshal(ser)
	if err != nil {
		return false, "Unmarshal: " + err.Error()
	}
	if _, err := tok.AuthorizerFor(biscuit.WithSingularRootPublicKey(root), hx.LongLimits); err != nil {
		return false, "AuthorizerFor: " + err.Error()
	}
	return true, ""
}
