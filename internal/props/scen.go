package props

import (
	"fmt"
	"strings"

	biscuit "github.com/biscuit-auth/biscuit-go/v2"

	"verif/internal/hx"
	"verif/internal/refdl"
	rx "verif/internal/refexpr"
	"verif/internal/sup"
)

// Shared helpers for the token-level checks (C02, C03, C04, C12, C13, C18).

func tokKey(authority refdl.Block, blocks []refdl.Block) string {
	var b strings.Builder
	b.WriteString(authority.String())
	for _, x := range blocks {
		b.WriteString("|")
		b.WriteString(x.String())
	}
	return b.String()
}

// cachedToken builds (or reuses) the token for the given content. Tokens are
// immutable values (C08), so sharing one between scenarios of one worker is
// sound; every scenario still gets a fresh authorizer.
func cachedToken(w *sup.W, authority refdl.Block, blocks []refdl.Block) (*biscuit.Biscuit, error) {
	cache, _ := w.Local["tokens"].(map[string]*biscuit.Biscuit)
	if cache == nil || len(cache) > 2048 {
		cache = map[string]*biscuit.Biscuit{}
		w.Local["tokens"] = cache
	}
	k := tokKey(authority, blocks)
	if t, ok := cache[k]; ok {
		return t, nil
	}
	t, err := hx.Token(1, 42, authority, blocks)
	if err != nil {
		return nil, err
	}
	cache[k] = t
	return t, nil
}

type authOut struct {
	Class  string
	Failed []string
	Err    error
}

func (o authOut) String() string {
	s := o.Class
	if len(o.Failed) > 0 {
		s += " failed=" + strings.Join(o.Failed, ",")
	}
	return s
}

// authorize runs one scenario on the library with a fresh authorizer.
func authorize(tok *biscuit.Biscuit, auth refdl.Block, pol []refdl.Policy) authOut {
	a, err := hx.Authorizer(tok, auth, pol)
	if err != nil {
		return authOut{Class: "authorizer-error", Err: err}
	}
	err = a.Authorize()
	return authOut{Class: hx.Classify(err), Failed: hx.FailedChecks(err), Err: err}
}

func sameStrings(a, b []string) bool {
	if len(a) != len(b) {
		return false
	}
	for i := range a {
		if a[i] != b[i] {
			return false
		}
	}
	return true
}

// small vocabulary constructors
func atom(name string, ts ...rx.Val) refdl.Atom { return refdl.A(name, ts...) }
func q(body ...refdl.Atom) refdl.Rule           { return refdl.Rule{Head: refdl.A("query"), Body: body} }
func qe(body []refdl.Atom, exprs ...[]rx.Op) refdl.Rule {
	return refdl.Rule{Head: refdl.A("query"), Body: body, Exprs: exprs}
}
func chk(qs ...refdl.Rule) refdl.Check                 { return refdl.Check{Queries: qs} }
func allow(qs ...refdl.Rule) refdl.Policy              { return refdl.Policy{Allow: true, Queries: qs} }
func deny(qs ...refdl.Rule) refdl.Policy               { return refdl.Policy{Allow: false, Queries: qs} }
func rule(h refdl.Atom, body ...refdl.Atom) refdl.Rule { return refdl.Rule{Head: h, Body: body} }

var (
	exprTrue  = []rx.Op{{Kind: rx.OpValue, V: rx.Bool(true)}}
	exprFalse = []rx.Op{{Kind: rx.OpValue, V: rx.Bool(false)}}
	qTrue     = qe(nil, exprTrue)
	qFalse    = qe(nil, exprFalse)
)

func binExpr(l rx.Val, op rx.Binary, r rx.Val) []rx.Op {
	return []rx.Op{{Kind: rx.OpValue, V: l}, {Kind: rx.OpValue, V: r}, {Kind: rx.OpBinary, B: op}}
}

func scenHuman(s refdl.Scenario) string { return s.String() }

// compareWithReference is C04's oracle, shared with other checks that want it.
func compareWithReference(w *sup.W, s refdl.Scenario, sigPrefix string) (lib authOut, ref refdl.Decision, ok bool) {
	tok, err := cachedToken(w, s.Authority, s.Blocks)
	if err != nil {
		w.Class("build-error")
		w.Violate(sigPrefix+":token-build-failed", scenHuman(s), err.Error(), "a token")
		return authOut{}, refdl.Decision{}, false
	}
	lib = authorize(tok, s.Auth, s.Policies)
	ref = refdl.Decide(s)
	if ref.Unsettled != "" {
		w.Class("outside-fragment")
		return lib, ref, false
	}
	want := hx.RefClass(ref)
	if lib.Class != want {
		w.Class("wrong-verdict")
		w.Violate(fmt.Sprintf("%s:verdict:%s-instead-of-%s", sigPrefix, lib.Class, want), scenHuman(s),
			fmt.Sprintf("%s (%v)", lib.Class, lib.Err), fmt.Sprintf("%s (reference: %s, failed checks %v, first matching policy %d)", want, ref.Class, ref.FailedChecks, ref.Policy))
		return lib, ref, false
	}
	if ref.Class == refdl.CheckFail && len(lib.Failed) > 0 {
		rf := append([]string{}, ref.FailedChecks...)
		sortStrings(rf)
		if !sameStrings(lib.Failed, rf) {
			w.Class("wrong-failed-checks")
			w.Violate(sigPrefix+":failed-check-list", scenHuman(s), strings.Join(lib.Failed, ","), strings.Join(rf, ","))
			return lib, ref, false
		}
	}
	return lib, ref, true
}

func sortStrings(s []string) {
	for i := 1; i < len(s); i++ {
		for j := i; j > 0 && s[j] < s[j-1]; j-- {
			s[j], s[j-1] = s[j-1], s[j]
		}
	}
}
