//go:build vsched

package props

import (
	"encoding/json"
	"errors"
	"fmt"
	"sort"
	"strings"
	"time"

	biscuit "github.com/biscuit-auth/biscuit-go/v2"
	"github.com/biscuit-auth/biscuit-go/v2/datalog"
	"github.com/biscuit-auth/biscuit-go/v2/vsched"

	"verif/internal/alpha"
	"verif/internal/dlx"
	"verif/internal/hx"
	"verif/internal/refdl"
	rx "verif/internal/refexpr"
	"verif/internal/sup"
)

// C11 — evaluation is bounded: limits honoured, no silent truncation, no
// stranded work. This file is compiled only into the Engine A binary, in which
// the datalog package is the rewritten copy running on the virtual scheduler:
// every evaluation therefore happens inside vsched.Run.

// seq runs body on the default schedule (alternative 0 everywhere: the running
// thread continues while it can, timers fire only when nothing else can run).
func seq(body func()) *vsched.Exec { return vsched.Run(nil, false, 0, body) }

func errClass(err error) string {
	switch {
	case err == nil:
		return "nil"
	case errors.Is(err, datalog.ErrWorldRunLimitMaxFacts):
		return "max-facts"
	case errors.Is(err, datalog.ErrWorldRunLimitMaxIterations):
		return "max-iterations"
	case errors.Is(err, datalog.ErrWorldRunLimitTimeout):
		return "timeout"
	}
	return "other-error"
}

// c11Prog is a Datalog program with its reference evaluation.
type c11Prog struct {
	name   string
	facts  []refdl.Atom
	rules  []refdl.Rule
	lfp    refdl.Set
	trace  refdl.Trace
	refErr error
}

func mkProg(name string, facts []refdl.Atom, rules ...refdl.Rule) *c11Prog {
	p := &c11Prog{name: name, facts: facts, rules: rules}
	p.lfp, p.trace, p.refErr = refdl.Fixpoint(refdl.NewSet(facts...), rules)
	return p
}

func (p *c11Prog) String() string {
	var rs []string
	for _, r := range p.rules {
		rs = append(rs, r.String())
	}
	var fs []string
	for _, f := range p.facts {
		fs = append(fs, f.Key())
	}
	return fmt.Sprintf("%s: rules {%s} facts {%s}", p.name, strings.Join(rs, " ; "), strings.Join(fs, " "))
}

// allowed returns the outcome classes the property allows for the limits.
func (p *c11Prog) allowed(maxFacts, maxIter int, timerFired bool) map[string]bool {
	out := map[string]bool{}
	if timerFired {
		out["timeout"] = true
	}
	if p.refErr != nil {
		// ill-formed program: never success; limits may be reported first
		out["other-error"] = true
		out["max-facts"] = true
		out["max-iterations"] = true
		return out
	}
	n := len(p.lfp)
	k := p.trace.Iterations - 1 // productive rounds
	mustErr := n > maxFacts || k > maxIter
	if !mustErr {
		out["nil"] = true
	}
	if n >= maxFacts {
		out["max-facts"] = true
	}
	if k >= maxIter {
		out["max-iterations"] = true
	}
	return out
}

func allowedString(m map[string]bool) string {
	var ks []string
	for k := range m {
		ks = append(ks, k)
	}
	sort.Strings(ks)
	return "{" + strings.Join(ks, ", ") + "}"
}

// world builds a fresh library world for the program.
func (p *c11Prog) world(opts ...datalog.WorldOption) (*datalog.World, *dlx.Syms) {
	syms := dlx.NewSyms()
	w := datalog.NewWorld(opts...)
	for _, f := range p.facts {
		w.AddFact(syms.Fact(f))
	}
	for _, r := range p.rules {
		w.AddRule(syms.Rule(r))
	}
	return w, syms
}

type runObs struct {
	class      string
	facts      refdl.Set
	factsErr   error
	timerAtRet int
}

// runOnce: one World.Run under the current schedule; observation taken when Run returns.
func (p *c11Prog) runOnce(maxFacts, maxIter int) (func(), *runObs) {
	obs := &runObs{}
	return func() {
		w, syms := p.world(datalog.WithMaxFacts(maxFacts), datalog.WithMaxIterations(maxIter), datalog.WithMaxDuration(2*time.Millisecond))
		tab := syms.Tab
		err := w.Run(&tab)
		syms.Tab = tab
		obs.class = errClass(err)
		obs.timerAtRet = vsched.FiredTimers()
		if err == nil {
			obs.facts, _, obs.factsErr = syms.BackSet(w.Facts())
		}
	}, obs
}

func c11Programs() []*c11Prog {
	X, Y := alpha.X, alpha.Y
	p0, p1, p2 := atom("p", rx.Int(0)), atom("p", rx.Int(1)), atom("p", rx.Int(2))
	e := func(a, b int64) refdl.Atom { return atom("e", rx.Int(a), rx.Int(b)) }
	lt5 := binExpr(X, rx.LessThan, rx.Int(5))
	ps := []*c11Prog{
		mkProg("no-rules", []refdl.Atom{p0, p1}),
		mkProg("one-round-2-matches", []refdl.Atom{p0, p1}, rule(atom("q", X), atom("p", X))),
		mkProg("one-round-3-matches", []refdl.Atom{p0, p1, p2}, rule(atom("q", X), atom("p", X))),
		mkProg("no-match", []refdl.Atom{p0}, rule(atom("q", X), atom("r", X))),
		mkProg("no-facts", nil, rule(atom("q", X), atom("p", X))),
		mkProg("two-rounds", []refdl.Atom{p0}, rule(atom("q", X), atom("p", X)), rule(atom("r", X), atom("q", X))),
		mkProg("three-rounds", []refdl.Atom{p0, p1}, rule(atom("q", X), atom("p", X)), rule(atom("r", X, X), atom("q", X)), rule(atom("z"), atom("r", X, X))),
		mkProg("three-rounds-reversed-rules", []refdl.Atom{p0}, rule(atom("z"), atom("r", X, X)), rule(atom("r", X, X), atom("q", X)), rule(atom("q", X), atom("p", X))),
		mkProg("transitive-closure", []refdl.Atom{e(1, 2), e(2, 3), e(3, 4)}, rule(atom("t", X, Y), atom("e", X, Y)), rule(atom("t", X, Y), atom("t", X, rx.Var("m")), atom("e", rx.Var("m"), Y))),
		mkProg("recursive-first", []refdl.Atom{e(1, 2), e(2, 3), e(3, 4)}, rule(atom("t", X, Y), atom("t", X, rx.Var("m")), atom("e", rx.Var("m"), Y)), rule(atom("t", X, Y), atom("e", X, Y))),
		mkProg("cross-product", []refdl.Atom{p0, p1, p2}, rule(atom("pair", X, Y), atom("p", X), atom("p", Y))),
		mkProg("expression-filter", []refdl.Atom{p0, p1, atom("p", rx.Int(7))}, refdl.Rule{Head: atom("small", X), Body: []refdl.Atom{atom("p", X)}, Exprs: [][]rx.Op{lt5}}),
		mkProg("expression-only-body", nil, refdl.Rule{Head: atom("z"), Exprs: [][]rx.Op{exprTrue}}),
		// ill-formed
		mkProg("expression-error-first-match", []refdl.Atom{atom("p", rx.Str("a")), p1}, refdl.Rule{Head: atom("small", X), Body: []refdl.Atom{atom("p", X)}, Exprs: [][]rx.Op{lt5}}),
		mkProg("expression-error-second-match", []refdl.Atom{p1, atom("p", rx.Str("a")), p2}, refdl.Rule{Head: atom("small", X), Body: []refdl.Atom{atom("p", X)}, Exprs: [][]rx.Op{lt5}}),
		mkProg("invalid-rule-0-matches", []refdl.Atom{p0}, rule(atom("q", Y), atom("r", X))),
		mkProg("invalid-rule-1-match", []refdl.Atom{p0}, rule(atom("q", Y), atom("p", X))),
		mkProg("invalid-rule-2-matches", []refdl.Atom{p0, p1}, rule(atom("q", Y), atom("p", X))),
		mkProg("invalid-rule-3-matches", []refdl.Atom{p0, p1, p2}, rule(atom("q", Y), atom("p", X))),
		mkProg("invalid-rule-after-valid", []refdl.Atom{p0, p1}, rule(atom("q", X), atom("p", X)), rule(atom("r", Y), atom("q", X))),
		mkProg("division-by-zero", []refdl.Atom{p0, p1}, refdl.Rule{Head: atom("d", X), Body: []refdl.Atom{atom("p", X)}, Exprs: [][]rx.Op{{{Kind: rx.OpValue, V: rx.Int(1)}, {Kind: rx.OpValue, V: X}, {Kind: rx.OpBinary, B: rx.Div}, {Kind: rx.OpValue, V: rx.Int(1)}, {Kind: rx.OpBinary, B: rx.Equal}}}}),
	}
	return ps
}

// ---- part 1: limits ---------------------------------------------------------------------------

func c11Limits(c *sup.Ctx) *sup.Space {
	progs := c11Programs()
	// plus the recursive single rules and pairs of the C05 alphabet on two fact sets
	f := c05Fixes[0]
	factSets := [][]refdl.Atom{f.uni, f.uni[:5]}
	for _, r := range f.small {
		for k, fs := range factSets {
			progs = append(progs, mkProg(fmt.Sprintf("alphabet-single-%d", k), fs, r))
		}
	}
	if c.Thorough() {
		for _, r1 := range f.small {
			for _, r2 := range f.small {
				progs = append(progs, mkProg("alphabet-pair", f.uni[:6], r1, r2))
			}
		}
	} else {
		for i, r1 := range f.small {
			for j, r2 := range f.small {
				if (i+j)%5 == 0 {
					progs = append(progs, mkProg("alphabet-pair", f.uni[:6], r1, r2))
				}
			}
		}
	}
	type cfg struct {
		p          *c11Prog
		facts, its int
	}
	var cases []cfg
	for _, p := range progs {
		n := len(p.lfp)
		k := p.trace.Iterations - 1
		for mf := 0; mf <= n+2; mf++ {
			for mi := 0; mi <= k+3; mi++ {
				cases = append(cases, cfg{p, mf, mi})
			}
		}
	}
	return &sup.Space{Name: "limits", Size: func(*sup.Ctx) int64 { return int64(len(cases)) }, Run: func(i int64, w *sup.W) {
		cs := cases[i]
		body, obs := cs.p.runOnce(cs.facts, cs.its)
		x := seq(body)
		human := fmt.Sprintf("%s with maxFacts=%d maxIterations=%d (reference: %d facts at fixpoint after %d productive rounds)", cs.p, cs.facts, cs.its, len(cs.p.lfp), cs.p.trace.Iterations-1)
		if c11ExecProblems(w, x, human, "limits") {
			return
		}
		allowed := cs.p.allowed(cs.facts, cs.its, obs.timerAtRet > 0)
		if !allowed[obs.class] {
			w.Class("wrong-outcome")
			w.Violate(fmt.Sprintf("C11:limits:%s-not-allowed", obs.class), human, obs.class, allowedString(allowed))
			return
		}
		if obs.class == "nil" {
			if obs.factsErr != nil || !obs.facts.Equal(cs.p.lfp) {
				w.Class("silent-truncation")
				w.Violate("C11:success-without-fixpoint", human, fmt.Sprintf("Run returned nil with %v %v", obs.facts, obs.factsErr), cs.p.lfp.String())
				return
			}
		}
		w.Class(obs.class)
		if obs.class != "nil" {
			w.NontrivialByIndex()
		}
		if w.WantSample(obs.class) {
			w.Sample(obs.class, map[string]string{"case": human, "outcome": obs.class, "allowed": allowedString(allowed)})
		}
	}}
}

// c11ExecProblems reports stranded threads, panics and replay divergence of an execution.
func c11ExecProblems(w *sup.W, x *vsched.Exec, human, where string) bool {
	if x.Diverged != "" {
		w.Violate("HARNESS:replay-divergence", human, x.Diverged, "deterministic replay")
		return true
	}
	if len(x.Panics) > 0 {
		w.Class("panic")
		w.Violate("C11:panic:"+sup.PanicSig(x.Panics[0]), human, x.Panics[0], "no panic on any goroutine")
		return true
	}
	if len(x.Stranded) > 0 {
		w.Class("stranded")
		// "T2(goroutine started in datalog.combine):send#3 created at: goroutine started in datalog.combine"
		site, op := x.Stranded[0], ""
		if i := strings.Index(site, " created at: "); i >= 0 {
			op = site[:i]
			site = site[i+13:]
		}
		if i := strings.LastIndex(op, "):"); i >= 0 {
			op = strings.Split(op[i+2:], "#")[0]
		}
		w.Violate("C11:stranded:"+site+":blocked-in-"+op, human, fmt.Sprintf("blocked forever after everything else finished: %v (schedule %v)", x.Stranded, x.Choices()), "every goroutine started by the evaluation terminates")
		return true
	}
	return false
}

// ---- part 1b: entry points honour the limits -----------------------------------------------------

func c11EntryPoints() *sup.Space {
	type ep struct {
		name string
		mk   func(tok *biscuit.Biscuit, opts ...biscuit.AuthorizerOption) (biscuit.Authorizer, error)
	}
	pub, _ := hx.Keys(1)
	eps := []ep{
		{"AuthorizerFor", func(t *biscuit.Biscuit, o ...biscuit.AuthorizerOption) (biscuit.Authorizer, error) {
			return t.AuthorizerFor(biscuit.WithSingularRootPublicKey(pub), o...)
		}},
		{"Authorizer", func(t *biscuit.Biscuit, o ...biscuit.AuthorizerOption) (biscuit.Authorizer, error) {
			return t.Authorizer(pub, o...)
		}},
		{"NewVerifier", func(t *biscuit.Biscuit, o ...biscuit.AuthorizerOption) (biscuit.Authorizer, error) {
			return biscuit.NewVerifier(t, o...)
		}},
	}
	chain := refdl.Block{Facts: []refdl.Atom{atom("p", i0)}, Rules: []refdl.Rule{rule(atom("q", vx), atom("p", vx)), rule(atom("r", vx, vx), atom("q", vx)), rule(atom("z"), atom("r", vx, vx))}}
	six := refdl.Block{Facts: []refdl.Atom{atom("f", rx.Int(1)), atom("f", rx.Int(2)), atom("f", rx.Int(3)), atom("f", rx.Int(4)), atom("f", rx.Int(5)), atom("f", rx.Int(6))}}
	type scen struct {
		name      string
		authority refdl.Block
		blocks    []refdl.Block
		opts      []datalog.WorldOption
		want      error
	}
	scens := []scen{
		{"3 rounds in the authority block, WithMaxIterations(1)", chain, nil, []datalog.WorldOption{datalog.WithMaxIterations(1)}, datalog.ErrWorldRunLimitMaxIterations},
		{"3 rounds in a later block, WithMaxIterations(2)", refdl.Block{}, []refdl.Block{chain}, []datalog.WorldOption{datalog.WithMaxIterations(2)}, datalog.ErrWorldRunLimitMaxIterations},
		{"6 facts in the authority block, WithMaxFacts(3)", six, nil, []datalog.WorldOption{datalog.WithMaxFacts(3)}, datalog.ErrWorldRunLimitMaxFacts},
		{"6 facts in a later block, WithMaxFacts(5)", refdl.Block{Facts: []refdl.Atom{atom("g", rx.Int(0))}}, []refdl.Block{six}, []datalog.WorldOption{datalog.WithMaxFacts(5)}, datalog.ErrWorldRunLimitMaxFacts},
		{"6 facts in the second later block, WithMaxFacts(5)", refdl.Block{}, []refdl.Block{{Facts: []refdl.Atom{atom("g", rx.Int(0))}}, six}, []datalog.WorldOption{datalog.WithMaxFacts(5)}, datalog.ErrWorldRunLimitMaxFacts},
		{"generous limits", chain, []refdl.Block{six}, []datalog.WorldOption{datalog.WithMaxFacts(100), datalog.WithMaxIterations(100)}, nil},
	}
	// what happens to the authorizer between its creation and the evaluation that is observed
	preps := []string{"AddPolicy", "Reset; AddPolicy", "LoadPolicies(snapshot holding the policy)", "AddPolicy; Authorize; Reset; AddPolicy", "LoadPolicies; Reset; LoadPolicies"}
	return &sup.Space{Name: "entry-points-honour-limits", Size: func(*sup.Ctx) int64 { return int64(len(eps) * len(scens) * len(preps)) }, Run: func(i int64, w *sup.W) {
		prep := int(i) % len(preps)
		i /= int64(len(preps))
		e := eps[int(i)%len(eps)]
		sc := scens[int(i)/len(eps)]
		tok, err := hx.Token(1, 5, sc.authority, sc.blocks)
		human := fmt.Sprintf("%s(…, WithWorldOptions(…)); %s; Authorize: %s", e.name, preps[prep], sc.name)
		if err != nil {
			w.Violate("C11:token-build-failed", human, err.Error(), "a token")
			return
		}
		var aerr error
		x := seq(func() {
			opts := append([]datalog.WorldOption{datalog.WithMaxDuration(time.Hour)}, sc.opts...)
			a, err := e.mk(tok, biscuit.WithWorldOptions(opts...))
			if err != nil {
				aerr = err
				return
			}
			snapshot := func() []byte {
				scratch, _ := biscuit.NewVerifier(tok, hx.LongLimits)
				scratch.AddPolicy(hx.Policy(allow(qTrue)))
				b, _ := scratch.SerializePolicies()
				return b
			}
			switch prep {
			case 0:
				a.AddPolicy(hx.Policy(allow(qTrue)))
			case 1:
				a.Reset()
				a.AddPolicy(hx.Policy(allow(qTrue)))
			case 2:
				if aerr = a.LoadPolicies(snapshot()); aerr != nil {
					return
				}
			case 3:
				a.AddPolicy(hx.Policy(allow(qTrue)))
				a.Authorize()
				a.Reset()
				a.AddPolicy(hx.Policy(allow(qTrue)))
			case 4:
				snap := snapshot()
				if aerr = a.LoadPolicies(snap); aerr != nil {
					return
				}
				a.Reset()
				if aerr = a.LoadPolicies(snap); aerr != nil {
					return
				}
			}
			aerr = a.Authorize()
		})
		if c11ExecProblems(w, x, human, "entry") {
			return
		}
		w.NontrivialByIndex()
		switch {
		case sc.want == nil && aerr != nil:
			w.Class("spurious-limit")
			w.Violate("C11:entry-point:"+e.name+":spurious-error", human, aerr.Error(), "nil")
		case sc.want != nil && !errors.Is(aerr, sc.want):
			w.Class("limit-ignored")
			w.Violate("C11:entry-point:"+e.name+":limit-not-honoured", human, fmt.Sprint(aerr), sc.want.Error())
		default:
			w.Class(errClass(aerr))
		}
	}}
}

// ---- part 1c: calls after a limit was hit ---------------------------------------------------------------

// After an evaluation stopped on a limit, every further call on the same authorizer reports the
// limit again or - if it succeeds - answers from the complete fixpoint; it never succeeds on the
// truncated fact store.
func c11AfterLimit() *sup.Space {
	e := func(a, b int64) refdl.Atom { return atom("e", rx.Int(a), rx.Int(b)) }
	X, Y, M := alpha.X, alpha.Y, rx.Var("m")
	chain := refdl.Block{Facts: []refdl.Atom{e(1, 2), e(2, 3), e(3, 4), e(4, 5), e(5, 6)}, Rules: []refdl.Rule{rule(atom("t", X, Y), atom("e", X, Y)), rule(atom("t", X, Y), atom("t", X, M), atom("e", M, Y))}}
	closure, _, _ := refdl.Fixpoint(refdl.NewSet(chain.Facts...), chain.Rules)
	var wantT []string
	for k, a := range closure {
		if a.Name == "t" {
			wantT = append(wantT, "out"+strings.TrimPrefix(k, "t"))
		}
	}
	sort.Strings(wantT)
	pol := []refdl.Policy{allow(q(atom("t", rx.Int(1), rx.Int(6))))}
	var seqs []string
	for _, a := range "AQ" {
		for _, b := range "AQ" {
			seqs = append(seqs, string(a)+string(b))
			for _, c := range "AQ" {
				seqs = append(seqs, string(a)+string(b)+string(c))
			}
		}
	}
	type lim struct {
		name string
		opts []datalog.WorldOption
	}
	var lims []lim
	for k := 1; k <= 6; k++ {
		lims = append(lims, lim{fmt.Sprintf("WithMaxIterations(%d)", k), []datalog.WorldOption{datalog.WithMaxIterations(k)}})
	}
	for _, k := range []int{6, 9, 12, 15, 19, 20, 21} {
		lims = append(lims, lim{fmt.Sprintf("WithMaxFacts(%d)", k), []datalog.WorldOption{datalog.WithMaxFacts(k)}})
	}
	where := []string{"authority", "authorizer"}
	return &sup.Space{Name: "calls-after-a-limit", Size: func(*sup.Ctx) int64 { return int64(len(seqs) * len(lims) * len(where)) }, Run: func(i int64, w *sup.W) {
		sq := seqs[int(i)%len(seqs)]
		i /= int64(len(seqs))
		lm := lims[int(i)%len(lims)]
		wh := int(i) / len(lims)
		var tok *biscuit.Biscuit
		var err error
		if wh == 0 {
			tok, err = hx.Token(1, 5, chain, nil)
		} else {
			tok, err = hx.Token(1, 5, refdl.Block{}, nil)
		}
		human := fmt.Sprintf("transitive closure of a 5-edge chain in the %s, %s, calls %s on one authorizer", where[wh], lm.name, sq)
		if err != nil {
			w.Violate("C11:token-build-failed", human, err.Error(), "a token")
			return
		}
		var obs []string
		bad := ""
		x := seq(func() {
			a, err := biscuit.NewVerifier(tok, biscuit.WithWorldOptions(append([]datalog.WorldOption{datalog.WithMaxDuration(time.Hour)}, lm.opts...)...))
			if err != nil {
				bad = err.Error()
				return
			}
			if wh == 1 {
				hx.Load(a, chain, nil)
			}
			hx.Load(a, refdl.Block{}, pol)
			// the token's facts and rules enter the authorizer's world with the first Authorize call;
			// before it, Query sees the authorizer's own content only
			loaded := wh == 1
			for k, c := range sq {
				want := wantT
				if !loaded {
					want = nil
				}
				if c == 'A' {
					loaded = true
					err := a.Authorize()
					cls := errClass(err)
					obs = append(obs, "Authorize="+cls)
					if cls != "nil" && cls != "max-iterations" && cls != "max-facts" {
						bad = fmt.Sprintf("call %d: Authorize returned %v (neither a limit nor the verdict of the complete fixpoint)", k+1, err)
					}
				} else {
					ks, err := hx.QuerySet(a, rule(atom("out", X, Y), atom("t", X, Y)))
					cls := errClass(err)
					obs = append(obs, fmt.Sprintf("Query=%s/%d", cls, len(ks)))
					if cls == "nil" && strings.Join(ks, " ") != strings.Join(want, " ") {
						bad = fmt.Sprintf("call %d: Query succeeded with %d of %d facts: %v", k+1, len(ks), len(want), ks)
					} else if cls != "nil" && cls != "max-iterations" && cls != "max-facts" {
						bad = fmt.Sprintf("call %d: Query returned %v", k+1, err)
					}
				}
				if bad != "" {
					return
				}
			}
		})
		if c11ExecProblems(w, x, human, "after-limit") {
			return
		}
		w.NontrivialByIndex()
		if bad != "" {
			w.Class("success-on-truncated-store")
			w.Violate("C11:call-after-limit-succeeds-on-truncated-facts", human, bad+"; observed "+strings.Join(obs, ", "), "a run-limit sentinel, or success with the complete fixpoint")
			return
		}
		w.Class(strings.Join(obs, ","))
	}}
}

// ---- part 2: schedules and timer points -----------------------------------------------------------

type c11Harness struct {
	name string
	// mk returns a fresh body and the function that judges one execution
	mk func() (body func(), judge func(x *vsched.Exec) (class string, sig, got, want string))
}

func c11RunHarness(p *c11Prog, maxFacts, maxIter int) c11Harness {
	return c11Harness{name: fmt.Sprintf("World.Run %s maxFacts=%d maxIterations=%d", p.name, maxFacts, maxIter), mk: func() (func(), func(x *vsched.Exec) (string, string, string, string)) {
		body, obs := p.runOnce(maxFacts, maxIter)
		return body, func(x *vsched.Exec) (string, string, string, string) {
			allowed := p.allowed(maxFacts, maxIter, obs.timerAtRet > 0)
			if !allowed[obs.class] {
				return "wrong-outcome", "C11:schedule:" + obs.class + "-not-allowed", obs.class + fmt.Sprintf(" (timers fired before return: %d)", obs.timerAtRet), allowedString(allowed)
			}
			if obs.class == "nil" && (obs.factsErr != nil || !obs.facts.Equal(p.lfp)) {
				return "silent-truncation", "C11:success-without-fixpoint", fmt.Sprintf("nil with %v", obs.facts), p.lfp.String()
			}
			return obs.class, "", "", ""
		}
	}}
}

func c11QueryHarness(name string, facts []refdl.Atom, r refdl.Rule) c11Harness {
	want, rerr := refdl.Apply(r, refdl.NewSet(facts...))
	return c11Harness{name: "World.QueryRule " + name, mk: func() (func(), func(x *vsched.Exec) (string, string, string, string)) {
		var got refdl.Set
		var gerr error
		body := func() {
			syms := dlx.NewSyms()
			w := datalog.NewWorld()
			for _, f := range facts {
				w.AddFact(syms.Fact(f))
			}
			dr := syms.Rule(r)
			tab := syms.Tab
			res := w.QueryRule(dr, &tab)
			syms.Tab = tab
			got, _, gerr = syms.BackSet(res)
		}
		return body, func(x *vsched.Exec) (string, string, string, string) {
			if rerr != nil {
				return "ill-formed", "", "", ""
			}
			if gerr != nil || !got.Equal(want) {
				return "wrong-result", "C11:query-result-depends-on-schedule", fmt.Sprint(got, gerr), want.String()
			}
			return fmt.Sprintf("%d-matches", len(want)), "", "", ""
		}
	}}
}

func c11AuthorizeHarness(name string, s refdl.Scenario, opts ...datalog.WorldOption) c11Harness {
	ref := refdl.Decide(s)
	tok, terr := hx.Token(1, 9, s.Authority, s.Blocks)
	return c11Harness{name: "Authorize " + name, mk: func() (func(), func(x *vsched.Exec) (string, string, string, string)) {
		var class string
		var fired int
		body := func() {
			if terr != nil {
				class = "build-error"
				return
			}
			a, err := biscuit.NewVerifier(tok, biscuit.WithWorldOptions(opts...))
			if err != nil {
				class = "authorizer-error"
				return
			}
			hx.Load(a, s.Auth, s.Policies)
			err = a.Authorize()
			fired = vsched.FiredTimers()
			class = hx.Classify(err)
			if errors.Is(err, datalog.ErrWorldRunLimitTimeout) {
				class = "timeout"
			}
		}
		return body, func(x *vsched.Exec) (string, string, string, string) {
			want := hx.RefClass(ref)
			if class == want || (class == "timeout" && fired > 0) {
				return class, "", "", ""
			}
			return "wrong-verdict", "C11:authorize-verdict-depends-on-schedule", fmt.Sprintf("%s (timers fired: %d)", class, fired), want
		}
	}}
}

func c11Harnesses(c *sup.Ctx) []c11Harness {
	var hs []c11Harness
	progs := c11Programs()
	for _, p := range progs {
		hs = append(hs, c11RunHarness(p, 1000, 100))
	}
	byName := map[string]*c11Prog{}
	for _, p := range progs {
		byName[p.name] = p
	}
	// limits hit under every schedule
	hs = append(hs,
		c11RunHarness(byName["one-round-3-matches"], 4, 100),
		c11RunHarness(byName["three-rounds"], 1000, 2),
		c11RunHarness(byName["three-rounds"], 3, 100),
		c11RunHarness(byName["two-rounds"], 1000, 0),
	)
	X, Y := alpha.X, alpha.Y
	p0, p1, p2 := atom("p", rx.Int(0)), atom("p", rx.Int(1)), atom("p", rx.Int(2))
	hs = append(hs,
		c11QueryHarness("0 matches", []refdl.Atom{p0}, rule(atom("h", X), atom("q", X))),
		c11QueryHarness("1 match", []refdl.Atom{p0}, rule(atom("h", X), atom("p", X))),
		c11QueryHarness("3 matches", []refdl.Atom{p0, p1, p2}, rule(atom("h", X), atom("p", X))),
		c11QueryHarness("2-atom body", []refdl.Atom{p0, p1}, rule(atom("h", X, Y), atom("p", X), atom("p", Y))),
		c11QueryHarness("invalid rule, 2 matches", []refdl.Atom{p0, p1}, rule(atom("h", Y), atom("p", X))),
		c11QueryHarness("expression error on the second match", []refdl.Atom{p1, atom("p", rx.Str("a"))}, refdl.Rule{Head: atom("h", X), Body: []refdl.Atom{atom("p", X)}, Exprs: [][]rx.Op{binExpr(X, rx.LessThan, rx.Int(5))}}),
	)
	// every way a producer's matches can end: each match is valid (V), filtered out by a false expression (F) or
	// raises an expression error (E), in every order up to three matches, for a well-formed rule and for one
	// whose head variable is unbound (the consumer stops listening at the first match it sees)
	kinds := [3][3]rx.Val{{rx.Int(1), rx.Int(2), rx.Int(3)}, {rx.Int(7), rx.Int(8), rx.Int(9)}, {rx.Str("a"), rx.Str("b"), rx.Str("c")}}
	for n := 1; n <= 3; n++ {
		total := 1
		for i := 0; i < n; i++ {
			total *= 3
		}
		for code := 0; code < total; code++ {
			var facts []refdl.Atom
			label, hasE, c := "", false, code
			for i := 0; i < n; i++ {
				k := c % 3
				c /= 3
				facts = append(facts, atom("p", kinds[k][i]))
				label += string("VFE"[k])
				hasE = hasE || k == 2
			}
			lt5 := [][]rx.Op{binExpr(X, rx.LessThan, rx.Int(5))}
			valid := refdl.Rule{Head: atom("h", X), Body: []refdl.Atom{atom("p", X)}, Exprs: lt5}
			invalid := refdl.Rule{Head: atom("h", Y), Body: []refdl.Atom{atom("p", X)}, Exprs: lt5}
			hs = append(hs,
				c11QueryHarness("matches "+label+", well-formed rule", facts, valid),
				c11QueryHarness("matches "+label+", unbound head variable", facts, invalid))
			if n >= 2 {
				hs = append(hs, c11RunHarness(mkProg("matches-"+label+"-unbound-head", facts, invalid), 1000, 100))
				if hasE {
					hs = append(hs, c11RunHarness(mkProg("matches-"+label+"-well-formed", facts, valid), 1000, 100))
				}
			}
		}
	}
	tiny := refdl.Scenario{Authority: refdl.Block{Facts: []refdl.Atom{fRightR}}, Auth: refdl.Block{Facts: []refdl.Atom{fOpRead}}, Policies: []refdl.Policy{allow(q(fRightR))}}
	withBlock := refdl.Scenario{Authority: refdl.Block{Facts: []refdl.Atom{fResF}, Rules: []refdl.Rule{rAllowed}}, Blocks: []refdl.Block{{Facts: []refdl.Atom{fResG}, Rules: []refdl.Rule{rAllowed}, Checks: []refdl.Check{chk(q(atom("allowed", sG)))}}}, Auth: refdl.Block{Facts: []refdl.Atom{fOpRead}}, Policies: []refdl.Policy{allow(q(fAllowedF))}}
	invalidInCheck := refdl.Scenario{Authority: refdl.Block{Facts: []refdl.Atom{fResF, fResG}}, Auth: refdl.Block{Checks: []refdl.Check{chk(q(fResF))}}, Policies: []refdl.Policy{allow(qTrue)}}
	hs = append(hs,
		c11AuthorizeHarness("no rules", tiny, datalog.WithMaxDuration(time.Millisecond)),
		c11AuthorizeHarness("invalid rule in a block", refdl.Scenario{Authority: refdl.Block{Facts: []refdl.Atom{p0, p1}}, Blocks: []refdl.Block{{Rules: []refdl.Rule{rule(atom("q", Y), atom("p", X))}}}, Policies: []refdl.Policy{allow(qTrue)}}, datalog.WithMaxDuration(time.Millisecond)),
		c11AuthorizeHarness("check over two facts", invalidInCheck, datalog.WithMaxDuration(time.Millisecond)),
	)
	if c.Thorough() {
		hs = append(hs, c11AuthorizeHarness("authority rule and block rule", withBlock, datalog.WithMaxDuration(time.Millisecond)))
	}
	return hs
}

type c11Case struct {
	Harness string `json:"harness"`
	Choices []int  `json:"schedule"`
}

func c11Schedules(c *sup.Ctx) *sup.Space {
	name := "schedules-and-timer-points"
	find := func(hs []c11Harness, n string) *c11Harness {
		for i := range hs {
			if hs[i].name == n {
				return &hs[i]
			}
		}
		return nil
	}
	return &sup.Space{Name: name, RunAll: func(c *sup.Ctx) {
		hs := c11Harnesses(c)
		w := c.NewW(name)
		defer c.Merge(w)
		bound := sup.Pick(c, 3, 4)
		var maxExec int64 = sup.Pick(c, int64(2000000), int64(20000000))
		for hi, h := range hs {
			if hi%c.Shards != c.Shard {
				continue
			}
			if c.Expired() {
				w.Stats().Exhaustive = false
				return
			}
			// self-check: the default schedule replayed twice gives identical observations
			var first string
			for k := 0; k < 2; k++ {
				body, judge := h.mk()
				x := vsched.Run(nil, false, 0, body)
				cls, _, _, _ := judge(x)
				o := fmt.Sprintf("%s %v %v %d", cls, x.Choices(), x.Stranded, x.Steps)
				if k == 0 {
					first = o
				} else if o != first {
					w.Violate("HARNESS:nondeterministic-replay", h.name, o, first)
					return
				}
			}
			var judge func(x *vsched.Exec) (string, string, string, string)
			outcomes := map[string]int{}
			body := func() {}
			wrapped := func() { body() }
			// every execution needs fresh state: the explorer calls wrapped(), which builds a new body
			var cur func()
			wrapped = func() {
				cur, judge = h.mk()
				cur()
			}
			st := vsched.Explore(bound, maxExec, 5000, wrapped, func(x *vsched.Exec) bool {
				b, _ := json.Marshal(c11Case{h.name, x.Choices()})
				if len(b) < 900 {
					w.Mark(0, string(b))
				}
				w.SetCase(c11Case{h.name, x.Choices()})
				human := fmt.Sprintf("%s under schedule %v", h.name, x.Choices())
				w.Stats().Transitions += int64(x.Steps)
				if c11ExecProblems(w, x, human, "schedules") {
					outcomes["problem"]++
					return true
				}
				cls, sig, got, want := judge(x)
				outcomes[cls]++
				if sig != "" {
					w.Class(cls)
					w.Violate(sig, human, got, want)
					return true
				}
				w.Class(cls)
				return true
			})
			w.Stats().States += st.Executions
			if st.Diverged != "" {
				w.Violate("HARNESS:replay-divergence", h.name, st.Diverged, "deterministic replay")
				return
			}
			if st.Capped {
				w.Stats().Exhaustive = false
			}
			w.Nontrivial(h.name)
			w.Sample("harness", map[string]interface{}{"harness": h.name, "deviation_bound": bound, "executions": st.Executions, "longest_execution_points": st.MaxPoints, "outcomes": outcomes, "capped": st.Capped})
			_ = body
		}
		w.Stats().Bound = fmt.Sprintf("all schedules and timer firing points with at most %d deviations (preemptions, early timer firings, non-first ready select cases)", bound)
		w.Stats().MaxDepth = int64(bound)
	}, ReplayCase: func(raw json.RawMessage, w *sup.W) {
		var cs c11Case
		if json.Unmarshal(raw, &cs) != nil {
			return
		}
		h := find(c11Harnesses(w.Ctx()), cs.Harness)
		if h == nil {
			return
		}
		body, judge := h.mk()
		x := vsched.Replay(cs.Choices, 5000, body)
		human := fmt.Sprintf("%s under schedule %v", h.name, cs.Choices)
		w.SetCase(cs)
		if c11ExecProblems(w, x, human, "schedules") {
			fmt.Println(strings.Join(x.Trace, "\n"))
			return
		}
		if _, sig, got, want := judge(x); sig != "" {
			w.Violate(sig, human, got, want)
		}
	}}
}

func init() {
	register(&sup.Check{
		ID:           "C11",
		Level:        "model_checking",
		Technique:    "stateless deviation-bounded exploration of goroutine schedules and virtual-timer firing points on the rewritten real datalog package (controlled scheduler), plus exhaustive enumeration of limit configurations against a reference evaluator",
		Rule:         "schedules: for ~35 harnesses (World.Run on programs with 0-3 matches, 1-3 rounds, recursion, limits hit, expression errors on first/second match, invalid rules with 0-3 matches; World.QueryRule; Authorize with and without blocks) every interleaving of the evaluation goroutine, the per-rule producer goroutine and the caller, every firing point of the timeout timer and every choice of a ready select case within 3 (quick) / 4 (thorough) deviations; per execution: no goroutine blocked forever at quiescence, no panic, Run=nil only with the full fixpoint, outcome in the set the reference allows (timeout only if the timer fired before the caller returned). limits: every program of a 100+ program set x every maxFacts in 0..n+2 x every maxIterations in 0..k+3 on the default schedule against the reference's fact counts per round. entry points: AuthorizerFor / Authorizer / NewVerifier x limits binding in the authority world, a first and a second block world. states = executions, transitions = scheduling steps. Non-trivial = harness (schedules), case whose outcome is an error (limits).",
		Assume:       []string{"the scheduler is sequentially consistent and preempts only at synchronisation operations (channel operations, go statements, select, context timers); code between two such points runs atomically", "the explored program is a source-to-source rewrite of the current /repo/datalog sources (tools/rewrite); a construct the rewriter cannot model stops the check with UNSUPPORTED", "real-time latency of a timeout is not measured: under virtual time the caller returns at its first step after the timer fires"},
		Procs:        func(string) int { return 16 },
		SingleThread: true,
		Overlay:      true,
		Spaces: func(c *sup.Ctx) []*sup.Space {
			return []*sup.Space{c11EntryPoints(), c11QueryAfterLoad(), c11AfterLimit(), c11Limits(c), c11Schedules(c)}
		},
	})
}
