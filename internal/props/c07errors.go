package props

import (
	"fmt"

	biscuit "github.com/biscuit-auth/biscuit-go/v2"

	"verif/internal/hx"
	"verif/internal/refdl"
	rx "verif/internal/refexpr"
	"verif/internal/sup"
	"verif/internal/wire"
)

// A builder call that returns an error (a duplicate fact, alone or in the middle of an AddBlock) is
// followed by more content with fresh symbols; the token that is finally built must still carry, block
// for block, what the accepted calls supplied. The statement does not say whether the facts of a failed
// AddBlock that precede the duplicate stay: both contents are allowed, nothing else is.
func c07ErrorsSpace() *sup.Space {
	first := atom("owner", rx.Str("alice"), rx.Str("file1"))
	fresh := atom("member", rx.Str("mallory"), rx.Str("team-a"))
	fresh2 := atom("tag", rx.Str("draft"))
	chkFresh := chk(q(atom("state", rx.Str("published"))))
	type failing struct {
		name string
		call func(add func(refdl.Block, bool) error) error
		// facts of the failing call that the library may keep
		kept []refdl.Atom
	}
	fails := []failing{
		{"AddFact(duplicate)", func(add func(refdl.Block, bool) error) error {
			return add(refdl.Block{Facts: []refdl.Atom{first}}, false)
		}, nil},
		{"AddBlock([fresh fact, duplicate])", func(add func(refdl.Block, bool) error) error {
			return add(refdl.Block{Facts: []refdl.Atom{fresh, first}}, true)
		}, []refdl.Atom{fresh}},
		{"AddBlock([duplicate, fresh fact])", func(add func(refdl.Block, bool) error) error {
			return add(refdl.Block{Facts: []refdl.Atom{first, fresh}}, true)
		}, nil},
		{"AddBlock([fresh fact, duplicate], check)", func(add func(refdl.Block, bool) error) error {
			return add(refdl.Block{Facts: []refdl.Atom{fresh, first}, Checks: []refdl.Check{chkFresh}}, true)
		}, []refdl.Atom{fresh}},
	}
	type after struct {
		name   string
		blk    refdl.Block
		parsed bool
	}
	afters := []after{
		{"AddFact(fresh)", refdl.Block{Facts: []refdl.Atom{fresh2}}, false},
		{"AddBlock([fresh])", refdl.Block{Facts: []refdl.Atom{fresh2}}, true},
		{"AddCheck(fresh)", refdl.Block{Checks: []refdl.Check{chkFresh}}, false},
		{"AddBlock([fresh], check)", refdl.Block{Facts: []refdl.Atom{fresh2}, Checks: []refdl.Check{chkFresh}}, true},
	}
	size := int64(2 * len(fails) * len(afters) * 2)
	return &sup.Space{Name: "builder-calls-that-fail", Size: func(*sup.Ctx) int64 { return size }, Run: func(i int64, w *sup.W) {
		inBlock := i%2 == 1
		i /= 2
		reload := i%2 == 1
		i /= 2
		af := afters[i%int64(len(afters))]
		fl := fails[i/int64(len(afters))]
		human := fmt.Sprintf("%s: AddFact(%s); %s -> error; %s; Build", map[bool]string{false: "authority builder", true: "block builder"}[inBlock], first.Key(), fl.name, af.name)
		_, priv := hx.Keys(1)
		var tok *biscuit.Biscuit
		var failErr error
		var err error
		if r, stack := sup.Catch(func() {
			run := func(add func(refdl.Block, bool) error) error {
				if e := add(refdl.Block{Facts: []refdl.Atom{first}}, false); e != nil {
					return e
				}
				failErr = fl.call(add)
				return add(af.blk, af.parsed)
			}
			if !inBlock {
				b := biscuit.NewBuilder(priv, biscuit.WithRNG(hx.NewRNG(5)))
				err = run(func(blk refdl.Block, parsed bool) error {
					if parsed {
						var pb biscuit.ParsedBlock
						for _, f := range blk.Facts {
							pb.Facts = append(pb.Facts, hx.Fact(f))
						}
						for _, c := range blk.Checks {
							pb.Checks = append(pb.Checks, hx.Check(c))
						}
						return b.AddBlock(pb)
					}
					return hx.FillBuilder(b, blk)
				})
				if err == nil {
					tok, err = b.Build()
				}
				return
			}
			b := biscuit.NewBuilder(priv, biscuit.WithRNG(hx.NewRNG(5)))
			if err = hx.FillBuilder(b, c07Shared[1]); err != nil {
				return
			}
			var parent *biscuit.Biscuit
			if parent, err = b.Build(); err != nil {
				return
			}
			bb := parent.CreateBlock()
			err = run(func(blk refdl.Block, parsed bool) error {
				if parsed {
					return hx.FillBlockParsed(bb, blk)
				}
				return hx.FillBlock(bb, blk)
			})
			if err == nil {
				tok, err = parent.Append(hx.NewRNG(6), bb.Build())
			}
		}); r != nil {
			w.Class("panic")
			w.Violate("C07:panic-while-building:"+sup.PanicSig(stack), human, fmt.Sprint(r), "a token or an error")
			return
		}
		w.Stats().States++
		w.Stats().Transitions += 4
		if failErr == nil {
			w.Class("duplicate-accepted")
			w.Violate("C07:duplicate-fact-accepted", human, "nil", "an error for the duplicate fact")
			return
		}
		if err != nil || tok == nil {
			w.Class("later-call-failed")
			w.Violate("C07:call-after-a-failed-call-fails", human, fmt.Sprint(err), "the later content is accepted")
			return
		}
		if reload {
			ser, e := tok.Serialize()
			if e == nil {
				tok, e = biscuit.Unmarshal(ser)
			}
			if e != nil {
				w.Violate("C07:unmarshal-rejects-own-bytes", human, e.Error(), "a token")
				return
			}
		}
		ser, e := tok.Serialize()
		if e != nil {
			w.Violate("C07:serialize-failed", human, e.Error(), "bytes")
			return
		}
		env, e := wire.DecodeEnvelope(ser)
		if e != nil {
			w.Violate("C07:reference-decoder-rejects-library-bytes", human, e.Error(), "decodable by the published schema")
			return
		}
		var wb []*wire.Block
		for _, sb := range append([]wire.SignedBlock{env.Authority}, env.Blocks...) {
			b, e := wire.DecodeBlock(sb.Block)
			if e != nil {
				w.Violate("C07:block-not-decodable", human, e.Error(), "decodable")
				return
			}
			wb = append(wb, b)
		}
		got, e := wire.ResolveChain(wb)
		if e != nil {
			w.Class("symbol-rule-broken")
			w.Violate("C07:symbol-or-version-rule", human, e.Error(), "every index resolvable from the block's own and earlier tables; tables hold new symbols only; version 3")
			return
		}
		mk := func(kept []refdl.Atom) []refdl.Block {
			own := refdl.Block{Facts: append(append([]refdl.Atom{first}, kept...), af.blk.Facts...), Checks: af.blk.Checks}
			if inBlock {
				return []refdl.Block{c07Shared[1], own}
			}
			return []refdl.Block{own}
		}
		g := blocksString(got)
		if g != blocksString(mk(nil)) && g != blocksString(mk(fl.kept)) {
			w.Class("content-differs")
			w.Violate("C07:decoded-content-differs-after-a-failed-call", human, g, blocksString(mk(fl.kept))+"   or   "+blocksString(mk(nil)))
			return
		}
		if g == blocksString(mk(nil)) && len(fl.kept) > 0 {
			w.Class("failed-call-rolled-back")
		} else {
			w.Class("accepted-calls-carried")
		}
		w.NontrivialByIndex()
	}}
}
