package props

import (
	"math"

	rx "verif/internal/refexpr"
	"verif/internal/sup"
)

// Consecutive evaluations in one process: every ordered pair of a 47-expression
// list (regular expressions with valid and invalid patterns, evaluations that
// fail with operands still pending, ill-formed sequences, ordinary operators of
// every type). Each evaluation has its own symbol table, so the same symbol
// index denotes different strings in the two evaluations. The second result
// must be what the second expression denotes, whatever was evaluated before.
var c06PairList = func() [][]rx.Op {
	b := func(op rx.Binary) rx.Op { return rx.Op{Kind: rx.OpBinary, B: op} }
	u := func(op rx.Unary) rx.Op { return rx.Op{Kind: rx.OpUnary, U: op} }
	i := func(n int64) rx.Op { return valOp(rx.Int(n)) }
	s := func(x string) rx.Op { return valOp(rx.Str(x)) }
	var out [][]rx.Op
	for _, subj := range []string{"a", "ab", "read"} {
		for _, pat := range []string{"a", "b", "a.*", "(", "^ab"} {
			out = append(out, []rx.Op{s(subj), s(pat), b(rx.Regex)})
		}
	}
	out = append(out,
		// failures that leave operands behind
		[]rx.Op{i(1), i(math.MaxInt64), i(2), b(rx.Mul), b(rx.Add)},
		[]rx.Op{i(40), i(math.MinInt64), i(-1), b(rx.Div), b(rx.Add)},
		[]rx.Op{i(7), i(1), valOp(rx.Var("unbound")), b(rx.Add), b(rx.Add)},
		[]rx.Op{i(5), s("a"), i(1), b(rx.LessThan), b(rx.Add)},
		[]rx.Op{i(1), i(2)},
		[]rx.Op{i(1), i(2), i(3)},
		[]rx.Op{b(rx.Add)},
		[]rx.Op{},
		[]rx.Op{i(40), i(2), b(rx.Add), i(0), b(rx.Div)},
		// ordinary evaluations of every type
		[]rx.Op{i(3), i(4), b(rx.Add)},
		[]rx.Op{i(2), b(rx.Add)},
		[]rx.Op{i(1), i(2), b(rx.LessThan)},
		[]rx.Op{i(3), i(4), b(rx.Mul), i(5), b(rx.Sub)},
		[]rx.Op{valOp(rx.Var("x")), i(2), b(rx.Equal)},
		[]rx.Op{s("read"), s("re"), b(rx.Prefix)},
		[]rx.Op{s("read"), s("ad"), b(rx.Suffix)},
		[]rx.Op{s("ab"), s("ab"), b(rx.Equal)},
		[]rx.Op{s("ab"), u(rx.Length)},
		[]rx.Op{valOp(rx.Bool(true)), u(rx.Negate)},
		[]rx.Op{valOp(rx.Bool(true)), valOp(rx.Bool(false)), b(rx.And)},
		[]rx.Op{valOp(rx.Bool(false)), valOp(rx.Bool(true)), b(rx.Or)},
		[]rx.Op{valOp(rx.SetOf(rx.Int(1), rx.Int(2))), valOp(rx.SetOf(rx.Int(2))), b(rx.Intersection)},
		[]rx.Op{valOp(rx.SetOf(rx.Int(1))), valOp(rx.SetOf(rx.Int(2))), b(rx.Union), u(rx.Length)},
		[]rx.Op{valOp(rx.SetOf(rx.Str("a"), rx.Str("b"))), s("b"), b(rx.Contains)},
		[]rx.Op{valOp(rx.SetOf(rx.Str("read"))), s("a"), b(rx.Contains)},
		[]rx.Op{valOp(rx.Bytes([]byte{0, 1})), valOp(rx.Bytes([]byte{0, 1})), b(rx.Equal)},
		[]rx.Op{valOp(rx.Date(1)), valOp(rx.Date(2)), b(rx.LessOrEqual)},
		[]rx.Op{i(1), i(2), b(rx.Add), u(rx.Parens), i(3), b(rx.Mul)},
		[]rx.Op{s("a"), s("b"), b(rx.Add)},
		[]rx.Op{s("b"), s("a"), b(rx.Add), s("ba"), b(rx.Equal)},
		[]rx.Op{i(1), s("a"), b(rx.Equal)},
		[]rx.Op{valOp(rx.SetOf(rx.Bytes([]byte{0}))), valOp(rx.SetOf(rx.Bytes([]byte{0}))), b(rx.Equal)},
	)
	return out
}()

func c06PairsSpace() *sup.Space {
	n := int64(len(c06PairList))
	return &sup.Space{Name: "consecutive-evaluations", Size: func(*sup.Ctx) int64 { return n * n * 2 }, Run: func(i int64, w *sup.W) {
		thrice := i%2 == 1 // first expression evaluated once or twice before the second
		i /= 2
		first, second := c06PairList[i/n], c06PairList[i%n]
		bind := map[string]rx.Val{"x": rx.Int(2)}
		scratch := w.Scratch()
		c06Run(scratch, first, bind)
		if thrice {
			c06Run(scratch, first, bind)
		}
		nv := len(w.Violations())
		c06Run(w, second, bind)
		if v := w.Violations(); len(v) > nv {
			w.AnnotateLast(" [evaluated right after " + rx.OpsString(first) + "]")
		}
	}}
}
