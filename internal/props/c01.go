package props

import (
	"bytes"
	"crypto/ed25519"
	"encoding/json"
	"fmt"
	"hash/fnv"
	"strings"
	"sync"
	"sync/atomic"

	"verif/internal/sup"
	"verif/internal/wire"
)

// C01 — Dolev-Yao style explicit-state search over envelope edits (DESIGN §4-C01).

type c01Universe struct {
	payloads   [][]byte
	keys       [][]byte
	sigs       [][]byte
	secrets    [][]byte // proof secrets of unsealed pool tokens (the attacker holds them)
	finals     [][]byte
	signed     []wire.SignedBlock
	known      []ed25519.PrivateKey // secrets the attacker can sign with
	payloadSet map[string]bool
}

func addUniq(list *[][]byte, b []byte) {
	for _, x := range *list {
		if bytes.Equal(x, b) {
			return
		}
	}
	*list = append(*list, append([]byte{}, b...))
}

func c01BuildUniverse(pool []*poolToken) *c01Universe {
	u := &c01Universe{payloadSet: map[string]bool{}}
	_, apriv := attackerKey()
	u.known = append(u.known, apriv)
	for _, t := range pool {
		all := append([]wire.SignedBlock{t.Env.Authority}, t.Env.Blocks...)
		for _, sb := range all {
			addUniq(&u.payloads, sb.Block)
			u.payloadSet[string(sb.Block)] = true
			addUniq(&u.keys, sb.Key)
			addUniq(&u.sigs, sb.Sig)
			dup := false
			for _, x := range u.signed {
				if bytes.Equal(x.Sig, sb.Sig) {
					dup = true
				}
			}
			if !dup {
				u.signed = append(u.signed, sb)
			}
		}
		if t.Env.Proof.Secret != nil {
			n := len(u.secrets)
			addUniq(&u.secrets, t.Env.Proof.Secret)
			if len(u.secrets) > n {
				u.known = append(u.known, ed25519.NewKeyFromSeed(t.Env.Proof.Secret))
			}
		}
		if t.Env.Proof.Final != nil {
			addUniq(&u.finals, t.Env.Proof.Final)
		}
	}
	apub, _ := attackerKey()
	addUniq(&u.keys, apub)
	return u
}

type c01Edit struct {
	name  string
	apply func(e *wire.Envelope)
}

func mutBytes(b []byte) [][2]interface{} {
	var out [][2]interface{}
	if len(b) > 0 {
		f := append([]byte{}, b...)
		f[0] ^= 1
		out = append(out, [2]interface{}{"flip-first-bit", f})
		l := append([]byte{}, b...)
		l[len(l)-1] ^= 0x80
		out = append(out, [2]interface{}{"flip-last-bit", l})
		m := append([]byte{}, b...)
		m[len(m)/2] ^= 0x10
		out = append(out, [2]interface{}{"flip-middle-bit", m})
		out = append(out, [2]interface{}{"truncate", append([]byte{}, b[:len(b)-1]...)})
	}
	out = append(out, [2]interface{}{"extend", append(append([]byte{}, b...), 0)})
	return out
}

func blockAt(e *wire.Envelope, i int) *wire.SignedBlock {
	if i == 0 {
		return &e.Authority
	}
	return &e.Blocks[i-1]
}

func lastBlock(e *wire.Envelope) *wire.SignedBlock { return blockAt(e, len(e.Blocks)) }

// c01Edits lists every single edit applicable to e. structuralOnly keeps the
// position/count/proof edits and drops the per-field substitutions.
func c01Edits(e *wire.Envelope, u *c01Universe, structuralOnly bool) []c01Edit {
	var out []c01Edit
	n := len(e.Blocks) + 1
	add := func(name string, f func(x *wire.Envelope)) { out = append(out, c01Edit{name, f}) }
	for i := 0; i < n; i++ {
		i := i
		cur := *blockAt(e, i)
		if !structuralOnly {
			for _, p := range u.payloads {
				if !bytes.Equal(p, cur.Block) {
					p := p
					add("payload:=universe", func(x *wire.Envelope) { blockAt(x, i).Block = p })
				}
			}
			for _, m := range mutBytes(cur.Block) {
				b := m[1].([]byte)
				add("payload:"+m[0].(string), func(x *wire.Envelope) { blockAt(x, i).Block = b })
			}
			for _, k := range u.keys {
				if !bytes.Equal(k, cur.Key) {
					k := k
					add("key:=universe", func(x *wire.Envelope) { blockAt(x, i).Key = k })
				}
			}
			for _, m := range mutBytes(cur.Key) {
				b := m[1].([]byte)
				add("key:"+m[0].(string), func(x *wire.Envelope) { blockAt(x, i).Key = b })
			}
			add("alg:=absent", func(x *wire.Envelope) { blockAt(x, i).Alg = nil })
			add("alg:=1", func(x *wire.Envelope) { v := uint64(1); blockAt(x, i).Alg = &v })
			for _, s := range u.sigs {
				if !bytes.Equal(s, cur.Sig) {
					s := s
					add("sig:=universe", func(x *wire.Envelope) { blockAt(x, i).Sig = s })
				}
			}
			for _, m := range mutBytes(cur.Sig) {
				b := m[1].([]byte)
				add("sig:"+m[0].(string), func(x *wire.Envelope) { blockAt(x, i).Sig = b })
			}
		}
		// signatures the attacker can compute over the block as it stands
		for ki, k := range u.known {
			k := k
			name := "sig:=attacker-signs-with-held-secret"
			if ki == 0 {
				name = "sig:=attacker-signs-with-own-key"
			}
			add(name, func(x *wire.Envelope) {
				b := blockAt(x, i)
				b.Sig = ed25519.Sign(k, wire.BlockPayload(*b))
			})
		}
		if i >= 1 {
			add("delete-block", func(x *wire.Envelope) { x.Blocks = append(x.Blocks[:i-1:i-1], x.Blocks[i:]...) })
			add("truncate-after", func(x *wire.Envelope) { x.Blocks = x.Blocks[:i-1] })
		}
		add("duplicate-block", func(x *wire.Envelope) {
			b := *blockAt(x, i)
			nb := append([]wire.SignedBlock{}, x.Blocks[:i]...)
			nb = append(nb, b)
			x.Blocks = append(nb, x.Blocks[i:]...)
		})
		if i+1 < n {
			add("swap-with-next", func(x *wire.Envelope) {
				a, b := *blockAt(x, i), *blockAt(x, i+1)
				*blockAt(x, i), *blockAt(x, i+1) = b, a
			})
		}
		for _, sb := range u.signed {
			sb := sb
			if i == 0 {
				add("replace-authority-by-pool-block", func(x *wire.Envelope) { x.Authority = sb })
			}
			add("insert-pool-block", func(x *wire.Envelope) {
				nb := append([]wire.SignedBlock{}, x.Blocks[:i]...)
				nb = append(nb, sb)
				x.Blocks = append(nb, x.Blocks[i:]...)
			})
		}
	}
	// proof edits
	for _, s := range u.secrets {
		s := s
		add("proof:=pool-secret", func(x *wire.Envelope) { x.Proof = wire.Proof{Present: true, Secret: s} })
	}
	for _, f := range u.finals {
		f := f
		add("proof:=pool-seal", func(x *wire.Envelope) { x.Proof = wire.Proof{Present: true, Final: f} })
	}
	for ki, k := range u.known {
		k := k
		if ki == 0 {
			add("proof:=attacker-secret", func(x *wire.Envelope) { x.Proof = wire.Proof{Present: true, Secret: k.Seed()} })
		}
		add("proof:=seal-made-with-held-secret", func(x *wire.Envelope) {
			x.Proof = wire.Proof{Present: true, Final: ed25519.Sign(k, wire.SealPayload(*lastBlock(x)))}
		})
	}
	// proofs fabricated from public material only: the last announced key itself, and 64-byte
	// values that contain it (a 64-byte ed25519 "private key" ends with its public key)
	add("proof:=last-announced-key-as-secret", func(x *wire.Envelope) {
		x.Proof = wire.Proof{Present: true, Secret: append([]byte{}, lastBlock(x).Key...)}
	})
	add("proof:=32-bytes-then-last-announced-key", func(x *wire.Envelope) {
		x.Proof = wire.Proof{Present: true, Secret: append(make([]byte, 32), lastBlock(x).Key...)}
	})
	add("proof:=last-announced-key-twice", func(x *wire.Envelope) {
		x.Proof = wire.Proof{Present: true, Secret: append(append([]byte{}, lastBlock(x).Key...), lastBlock(x).Key...)}
	})
	add("proof:=empty", func(x *wire.Envelope) { x.Proof = wire.Proof{Present: true} })
	add("proof:=absent", func(x *wire.Envelope) { x.Proof = wire.Proof{} })
	add("proof:=empty-secret", func(x *wire.Envelope) { x.Proof = wire.Proof{Present: true, Secret: []byte{}} })
	add("proof:=short-secret", func(x *wire.Envelope) { x.Proof = wire.Proof{Present: true, Secret: []byte{1, 2, 3}} })
	if e.Proof.Final != nil {
		for _, m := range mutBytes(e.Proof.Final) {
			b := m[1].([]byte)
			add("seal:"+m[0].(string), func(x *wire.Envelope) { x.Proof.Final = b })
		}
	}
	if e.Proof.Secret != nil {
		for _, m := range mutBytes(e.Proof.Secret) {
			b := m[1].([]byte)
			add("secret:"+m[0].(string), func(x *wire.Envelope) { x.Proof.Secret = b })
		}
	}
	// key id
	add("keyid:=7", func(x *wire.Envelope) { v := uint32(7); x.RootKeyID = &v })
	// re-key the whole chain under the attacker's root
	add("resign-chain-under-attacker-root", func(x *wire.Envelope) {
		var blocks [][]byte
		blocks = append(blocks, x.Authority.Block)
		for _, b := range x.Blocks {
			blocks = append(blocks, b.Block)
		}
		_, apriv := attackerKey()
		sealed := x.Proof.Final != nil
		ne := wire.SignChain(apriv, blocks, 9100, sealed)
		ne.RootKeyID = x.RootKeyID
		*x = *ne
	})
	return out
}

type hashSet struct {
	shards [64]struct {
		mu sync.Mutex
		m  map[uint64]struct{}
	}
}

func newHashSet() *hashSet {
	h := &hashSet{}
	for i := range h.shards {
		h.shards[i].m = map[uint64]struct{}{}
	}
	return h
}

func (h *hashSet) add(b []byte) bool {
	f := fnv.New64a()
	f.Write(b)
	k := f.Sum64()
	s := &h.shards[k%64]
	s.mu.Lock()
	defer s.mu.Unlock()
	if _, ok := s.m[k]; ok {
		return false
	}
	s.m[k] = struct{}{}
	return true
}

type c01State struct {
	env  *wire.Envelope
	path []string
	seed string
}

type c01Case struct {
	Seed string   `json:"seed"`
	Path []string `json:"path"`
	Hex  string   `json:"token_hex"`
	Root int      `json:"root"`
}

// c01Verify checks one envelope under the three roots.
func c01Verify(w *sup.W, u *c01Universe, st *c01State, ser []byte) {
	honest := st.env.HasAuth
	if honest {
		all := append([]wire.SignedBlock{st.env.Authority}, st.env.Blocks...)
		for _, b := range all {
			if !u.payloadSet[string(b.Block)] {
				honest = false
			}
		}
	}
	for _, root := range []int{1, 2, 0} {
		pub := rootPub(root)
		valid, why := wire.Valid(st.env, pub)
		acc, lwhy := libAccepts(ser, pub)
		cs := c01Case{Seed: st.seed, Path: st.path, Hex: fmt.Sprintf("%x", ser), Root: root}
		human := func() string {
			return fmt.Sprintf("pool token %s, edits %v, verified under root %d", st.seed, st.path, root)
		}
		switch {
		case acc && !valid:
			w.SetCase(cs)
			w.Class("forgery-accepted")
			w.Violate("C01:accepts-invalid-chain:"+lastOf(st.path), human(), "accepted by Unmarshal+AuthorizerFor", "rejected: "+why)
		case !acc && valid && honest:
			w.SetCase(cs)
			w.Class("valid-rejected")
			w.Violate("C01:rejects-valid-chain:"+lastOf(st.path), human(), "rejected: "+lwhy, "accepted (chain is valid and every block is an unmodified library-made block)")
		case acc:
			w.Class("accepted-valid")
		case valid:
			w.Class("rejected-valid-but-malformed-payload")
		default:
			w.Class("rejected-invalid")
		}
	}
}

func lastOf(p []string) string {
	if len(p) == 0 {
		return "pool-token"
	}
	return p[len(p)-1]
}

func c01Explore(c *sup.Ctx, name string, seeds []*poolToken, u *c01Universe, depth int, structuralFrom int) {
	threads := c.Threads()
	seen := newHashSet()
	var frontier []*c01State
	for _, t := range seeds {
		frontier = append(frontier, &c01State{env: t.Env.Clone(), seed: t.Name})
	}
	var states, transitions int64
	merged := false
	var wsAll []*sup.W
	for d := 1; d <= depth; d++ {
		var next []*c01State
		var mu sync.Mutex
		var idx int64 = -1
		var wg sync.WaitGroup
		keep := d < depth
		for t := 0; t < threads; t++ {
			wg.Add(1)
			w := c.NewW(name)
			wsAll = append(wsAll, w)
			go func() {
				defer wg.Done()
				var local []*c01State
				for {
					k := atomic.AddInt64(&idx, 1)
					if k >= int64(len(frontier)) || c.Expired() {
						break
					}
					st := frontier[k]
					for _, ed := range c01Edits(st.env, u, d >= structuralFrom) {
						ne := st.env.Clone()
						ok := true
						if r, _ := sup.Catch(func() { ed.apply(ne) }); r != nil {
							ok = false // an edit that does not apply to this shape
						}
						if !ok {
							continue
						}
						atomic.AddInt64(&transitions, 1)
						ser := ne.Encode()
						if !seen.add(ser) {
							continue
						}
						atomic.AddInt64(&states, 1)
						w.NontrivialByIndex()
						ns := &c01State{env: ne, path: append(append([]string{}, st.path...), ed.name), seed: st.seed}
						b, _ := json.Marshal(c01Case{Seed: ns.seed, Path: ns.path, Hex: fmt.Sprintf("%x", ser)})
						if len(b) < 900 {
							w.Mark(0, string(b))
						} else {
							w.Mark(0, "")
						}
						w.SetCase(c01Case{Seed: ns.seed, Path: ns.path, Hex: fmt.Sprintf("%x", ser)})
						sup.Guard(w, fmt.Sprintf("%s %v", ns.seed, ns.path), func() { c01Verify(w, u, ns, ser) })
						if keep {
							local = append(local, ns)
						}
					}
				}
				mu.Lock()
				next = append(next, local...)
				mu.Unlock()
			}()
		}
		wg.Wait()
		frontier = next
		if c.Expired() {
			break
		}
	}
	for i, w := range wsAll {
		if i == 0 {
			w.Stats().States = states
			w.Stats().Transitions = transitions
			w.Stats().MaxDepth = int64(depth)
			w.Stats().Bound = fmt.Sprintf("all envelopes within %d edits of %d pool tokens", depth, len(seeds))
			if c.Expired() {
				w.Stats().Exhaustive = false
			}
		}
		c.Merge(w)
	}
	_ = merged
}

func init() {
	register(&sup.Check{
		ID:        "C01",
		Level:     "model_checking",
		Technique: "explicit-state breadth-first search of an attacker model (envelope edits over a component universe, held secrets, re-signing) with every reached state verified on the real Unmarshal+AuthorizerFor against a reference chain-validity predicate; plus exhaustive byte-level neighbourhoods",
		Rule:      "states = distinct serialized envelopes reachable from the honest pool (2 roots x payload sequences {P,Q}^1..3 x sealed/unsealed = 56 library-made tokens) by up to d single edits: replace a block's payload/key/algorithm/signature by any component of the universe or a flipped/truncated/extended variant, sign a block or seal with any secret the attacker holds (own key, next-secrets of all unsealed pool tokens), delete/duplicate/insert/swap/truncate blocks, replace the proof (pool secrets, pool seals, attacker seal, empty, absent, short), set the key id, re-sign the whole chain under the attacker root. Every state is checked under roots R1, R2 and the attacker root. Oracle: library accepts => reference chain-valid; reference valid and all payloads unmodified library-made => library accepts. Non-trivial = states (all differ from a pool token). Byte level: every single-bit flip, every proper prefix and every single-byte deletion of pool tokens (safety direction only).",
		Assume:    []string{"ed25519 is unforgeable and deterministic (crypto/ed25519 is the trusted base of the reference)", "the reference decoder internal/wire transcribes the published schema"},
		Spaces: func(c *sup.Ctx) []*sup.Space {
			var pool []*poolToken
			var full, small *c01Universe
			var sub []*poolToken
			prep := func() error {
				if pool != nil {
					return nil
				}
				p, err := buildPool(3)
				if err != nil {
					return err
				}
				pool = p
				full = c01BuildUniverse(pool)
				// sub-pool: one- and two-block tokens of root 1 plus one of root 2, sealed and not
				for _, t := range pool {
					if (t.Root == 1 && (fmt.Sprint(t.Content) == "[P]" || fmt.Sprint(t.Content) == "[P Q]")) || (t.Root == 2 && fmt.Sprint(t.Content) == "[P Q]" && !t.Sealed) {
						sub = append(sub, t)
					}
				}
				small = c01BuildUniverse(sub)
				return nil
			}
			mk := func(name string, run func(c *sup.Ctx)) *sup.Space {
				return &sup.Space{Name: name, RunAll: func(c *sup.Ctx) {
					if err := prep(); err != nil {
						w := c.NewW(name)
						w.Violate("C01:pool-construction-failed", "honest pool", err.Error(), "56 tokens")
						c.Merge(w)
						return
					}
					run(c)
				}, ReplayCase: c01ReplayGeneric}
			}
			spaces := []*sup.Space{
				mk("pool-accepted-under-own-root", func(c *sup.Ctx) {
					w := c.NewW("pool-accepted-under-own-root")
					for _, t := range pool {
						for _, root := range []int{1, 2, 0} {
							acc, why := libAccepts(t.Bytes, rootPub(root))
							w.SetCase(c01Case{Seed: t.Name, Hex: fmt.Sprintf("%x", t.Bytes), Root: root})
							if acc != (root == t.Root) {
								w.Violate("C01:pool-token-verdict", fmt.Sprintf("%s under root %d", t.Name, root), fmt.Sprintf("accepted=%v %s", acc, why), fmt.Sprintf("accepted=%v", root == t.Root))
							}
							if v, _ := wire.Valid(t.Env, rootPub(root)); v != (root == t.Root) {
								w.Violate("C01:reference-disagrees-on-pool-token", t.Name, fmt.Sprint(v), fmt.Sprint(root == t.Root))
							}
							w.Class(fmt.Sprintf("accepted=%v", acc))
							w.Stats().States++
							w.Stats().Transitions++
						}
						w.Nontrivial(t.Name)
					}
					c.Merge(w)
				}),
				mk("one-edit-full-pool", func(c *sup.Ctx) { c01Explore(c, "one-edit-full-pool", pool, full, 1, 99) }),
			}
			if c.Quick() {
				spaces = append(spaces, mk("two-edits-sub-pool", func(c *sup.Ctx) { c01Explore(c, "two-edits-sub-pool", sub, small, 2, 99) }))
			} else {
				spaces = append(spaces,
					mk("two-edits-full-pool-small-universe", func(c *sup.Ctx) { c01Explore(c, "two-edits-full-pool-small-universe", pool, small, 2, 99) }),
					mk("three-edits-sub-pool-structural-third", func(c *sup.Ctx) {
						c01Explore(c, "three-edits-sub-pool-structural-third", sub, small, 3, 2)
					}))
			}
			spaces = append(spaces, mk("byte-level", func(c *sup.Ctx) {
				toks := pool
				if c.Quick() {
					toks = sub
				}
				c01ByteLevel(c, toks)
			}))
			spaces = append(spaces, c01ForkSpace(), c01RepeatSpace())
			return spaces
		},
	})
}

// c01ByteCase: safety direction on one mutated byte string.
func c01ByteCase(w *sup.W, seed, what string, ser []byte) {
	env, derr := wire.DecodeEnvelope(ser)
	for _, root := range []int{1, 2, 0} {
		acc, why := libAccepts(ser, rootPub(root))
		valid := false
		if derr == nil {
			valid, _ = wire.Valid(env, rootPub(root))
		}
		switch {
		case acc && !valid:
			w.SetCase(c01Case{Seed: seed, Path: []string{"byte-level", what}, Hex: fmt.Sprintf("%x", ser), Root: root})
			w.Class("forgery-accepted")
			w.Violate("C01:accepts-invalid-bytes:"+what, fmt.Sprintf("%s %s under root %d", seed, what, root), "accepted", "rejected (reference: not a valid chain)")
		case acc:
			w.Class("accepted-valid")
		case valid:
			w.Class("decoders-disagree-on-well-formedness")
		default:
			// which stage refuses: the decoder, or signature verification
			w.Class("rejected-by-" + strings.SplitN(why, ":", 2)[0])
		}
	}
}

func c01ByteLevel(c *sup.Ctx, toks []*poolToken) {
	type job struct {
		t    *poolToken
		kind int
		pos  int
	}
	var jobs []job
	for _, t := range toks {
		for p := 0; p < len(t.Bytes)*8; p++ {
			jobs = append(jobs, job{t, 0, p})
		}
		for p := 0; p < len(t.Bytes); p++ {
			jobs = append(jobs, job{t, 1, p}, job{t, 2, p})
		}
	}
	var idx int64 = -1
	var wg sync.WaitGroup
	for th := 0; th < c.Threads(); th++ {
		wg.Add(1)
		w := c.NewW("byte-level")
		go func() {
			defer wg.Done()
			defer c.Merge(w)
			for {
				k := atomic.AddInt64(&idx, 1)
				if k >= int64(len(jobs)) {
					return
				}
				if c.Expired() {
					w.Stats().Exhaustive = false
					return
				}
				j := jobs[k]
				var ser []byte
				var what string
				switch j.kind {
				case 0:
					ser = append([]byte{}, j.t.Bytes...)
					ser[j.pos/8] ^= 1 << uint(j.pos%8)
					what = "bit-flip"
				case 1:
					ser = append([]byte{}, j.t.Bytes[:j.pos]...)
					what = "prefix"
				case 2:
					ser = append(append([]byte{}, j.t.Bytes[:j.pos]...), j.t.Bytes[j.pos+1:]...)
					what = "byte-deletion"
				}
				b, _ := json.Marshal(c01Case{Seed: j.t.Name, Path: []string{"byte-level", what}, Hex: fmt.Sprintf("%x", ser)})
				if len(b) < 900 {
					w.Mark(k, string(b))
				}
				w.Stats().States++
				w.Stats().Transitions++
				w.NontrivialByIndex()
				sup.Guard(w, fmt.Sprintf("%s %s at %d", j.t.Name, what, j.pos), func() { c01ByteCase(w, j.t.Name, what, ser) })
			}
		}()
	}
	wg.Wait()
}
