package props

import (
	"fmt"
	"strings"

	biscuit "github.com/biscuit-auth/biscuit-go/v2"

	"verif/internal/gram"
	"verif/internal/hx"
	"verif/internal/refdl"
	rx "verif/internal/refexpr"
	"verif/internal/sup"
)

// C15 — the printed form of a block is faithful: print ∘ parse on the
// printable domain, in every block position.

// ---- line reader: undoes only the framing the printers add ----------------------------------------

// topLevelSplit splits s at occurrences of sep that are outside quotes, parentheses and brackets.
func topLevelSplit(s, sep string) []string {
	var out []string
	depth, inq, start := 0, false, 0
	for i := 0; i < len(s); i++ {
		c := s[i]
		switch {
		case c == '"':
			inq = !inq
		case inq:
		case c == '(' || c == '[':
			depth++
		case c == ')' || c == ']':
			depth--
		}
		if !inq && depth == 0 && strings.HasPrefix(s[i:], sep) {
			out = append(out, s[start:i])
			start = i + len(sep)
			i += len(sep) - 1
		}
	}
	return append(out, s[start:])
}

// splitRules splits "h(..) <- body h2(..) <- body2" before the head predicate of every top-level "<-".
func splitRules(s string) ([]string, error) {
	var arrows []int
	depth, inq := 0, false
	for i := 0; i < len(s); i++ {
		c := s[i]
		switch {
		case c == '"':
			inq = !inq
		case inq:
		case c == '(' || c == '[':
			depth++
		case c == ')' || c == ']':
			depth--
		}
		if !inq && depth == 0 && strings.HasPrefix(s[i:], " <- ") {
			arrows = append(arrows, i)
		}
	}
	if len(arrows) == 0 {
		if strings.TrimSpace(s) == "" {
			return nil, nil
		}
		return nil, fmt.Errorf("no rule arrow in %q", s)
	}
	var starts []int
	for _, a := range arrows {
		// the head ends at a-1 with ')'; find its matching '(' then the name before it
		j := a - 1
		if j < 0 || s[j] != ')' {
			return nil, fmt.Errorf("rule head does not end with ')' before %d in %q", a, s)
		}
		d, q := 0, false
		for ; j >= 0; j-- {
			c := s[j]
			if c == '"' {
				q = !q
			}
			if q {
				continue
			}
			if c == ')' || c == ']' {
				d++
			}
			if c == '(' || c == '[' {
				d--
				if d == 0 {
					break
				}
			}
		}
		for j > 0 && s[j-1] != ' ' {
			j--
		}
		starts = append(starts, j)
	}
	var out []string
	for k, st := range starts {
		end := len(s)
		if k+1 < len(starts) {
			end = starts[k+1]
		}
		out = append(out, strings.TrimSpace(s[st:end]))
	}
	return out, nil
}

type printedBlock struct{ facts, rules, checks []string }

// readStringBlocks extracts the Datalog elements of every block of Biscuit.String().
func readStringBlocks(s string) ([]printedBlock, error) {
	var out []printedBlock
	var cur *printedBlock
	for _, line := range strings.Split(s, "\n") {
		t := strings.TrimSpace(line)
		switch {
		case strings.Contains(t, "Block {"):
			out = append(out, printedBlock{})
			cur = &out[len(out)-1]
		case cur == nil:
		case strings.HasPrefix(t, "facts: [") && strings.HasSuffix(t, "]"):
			body := t[len("facts: [") : len(t)-1]
			if strings.TrimSpace(body) != "" {
				cur.facts = topLevelSplit(body, " ")
			}
		case strings.HasPrefix(t, "rules: [") && strings.HasSuffix(t, "]"):
			rs, err := splitRules(t[len("rules: [") : len(t)-1])
			if err != nil {
				return nil, err
			}
			cur.rules = rs
		case strings.HasPrefix(t, "checks: [") && strings.HasSuffix(t, "]"):
			body := t[len("checks: [") : len(t)-1]
			if strings.TrimSpace(body) != "" {
				parts := topLevelSplit(body, ", check if ")
				for i, p := range parts {
					if i > 0 {
						p = "check if " + p
					}
					cur.checks = append(cur.checks, p)
				}
			}
		}
	}
	return out, nil
}

// readCodeBlock extracts the elements of one Block.Code() text.
func readCodeBlock(s string) ([]string, error) {
	a, b := strings.Index(s, "{"), strings.LastIndex(s, "}")
	if a < 0 || b < a {
		return nil, fmt.Errorf("no braces in %q", s)
	}
	var out []string
	for _, line := range strings.Split(s[a+1:b], "\n") {
		t := strings.TrimSuffix(strings.TrimSpace(line), ";")
		if strings.TrimSpace(t) != "" {
			out = append(out, t)
		}
	}
	return out, nil
}

// parseBack parses printed elements and returns the canonical block.
func parseBack(w *sup.W, elems []string) (refdl.Block, error) {
	src := strings.Join(elems, ";\n")
	if len(elems) > 0 {
		src += ";"
	}
	pb, err := c14Parser(w).Block(src, nil)
	if err != nil {
		return refdl.Block{}, fmt.Errorf("%v in %q", err, src)
	}
	return hx.BackBlock(pb)
}

// ---- corpus --------------------------------------------------------------------------------------------

// printable leaves: no string sets, no parameters that expand to them
var c15Leaves = []gram.Leaf{gram.LVarX, gram.LInt, gram.LStr, gram.LDate, gram.LBytes, gram.LBool, gram.LSet, gram.LParam, gram.L(`""`, rx.Str("")), gram.L("hex:", rx.Bytes([]byte{})), gram.L("0", rx.Int(0)), gram.L("1970-01-01T00:00:00Z", rx.Date(0)), gram.L("$query", rx.Var("query")), gram.L("$0", rx.Var("0")),
	// far-future dates ("never expires"), strings with characters that are special to printers but not to the grammar
	gram.L("9999-12-31T23:59:59Z", rx.Date(253402300799)), gram.L("2300-01-01T00:00:00Z", rx.Date(10413792000)),
	gram.L(`"100%"`, rx.Str("100%")), gram.L(`"%d %s %v"`, rx.Str("%d %s %v")), gram.L(`"a, b) <- c("`, rx.Str("a, b) <- c(")), gram.L(`"check if x or y"`, rx.Str("check if x or y")), gram.L(`"[1, 2]"`, rx.Str("[1, 2]")),
	gram.L("9223372036854775807", rx.Int(9223372036854775807)), gram.L("hex:00ff", rx.Bytes([]byte{0, 255})), gram.L("false", rx.Bool(false)), gram.L("[true]", rx.SetOf(rx.Bool(true))),
	// sets written in an order that is neither numeric nor textual order (a printer or an encoder that sorts shows here)
	gram.L("[9, 10, 2]", rx.SetOf(rx.Int(9), rx.Int(10), rx.Int(2))), gram.L("[3, 1, 2]", rx.SetOf(rx.Int(3), rx.Int(1), rx.Int(2))),
	gram.L("[hex:ff, hex:00]", rx.SetOf(rx.Bytes([]byte{255}), rx.Bytes([]byte{0}))), gram.L("[true, false]", rx.SetOf(rx.Bool(true), rx.Bool(false))),
	gram.L("[2030-01-01T00:00:00Z, 1999-01-01T00:00:00Z]", rx.SetOf(rx.Date(1893456000), rx.Date(915148800))),
}

type c15Elem struct {
	toks   []string
	params map[string]rx.Val
}

func c15Elements(c *sup.Ctx) []c15Elem {
	var out []c15Elem
	add := func(toks []string, pm map[string]rx.Val) { out = append(out, c15Elem{toks, pm}) }
	px := gram.Pred{Name: "p", Terms: []gram.Leaf{gram.LVarX}}
	head := gram.Pred{Name: "h", Terms: []gram.Leaf{gram.LVarX}}
	exprElem := func(syn *gram.Node, k int) {
		pm := map[string]rx.Val{}
		syn.Params(pm)
		body := gram.Body{{P: &px}, {E: syn}}
		if k%2 == 0 {
			add(gram.QueriesToks("check if", []gram.Body{body}), pm)
		} else {
			add(gram.RuleToks(head, body), pm)
		}
	}
	k := 0
	for _, sem := range gram.Depth1(c15Leaves[:8]) {
		exprElem(gram.Minimal(sem), k)
		k++
	}
	for _, l := range c15Leaves[8:] {
		exprElem(gram.Bin(rx.Equal, gram.Lf(gram.LVarX), gram.Lf(l)), k)
		k++
	}
	subs := append([]*gram.Node{gram.Lf(gram.LVarX), gram.Lf(gram.LInt)}, gram.Depth1([]gram.Leaf{gram.LVarX})...)
	for i, sem := range gram.Compose(subs) {
		for _, syn := range []*gram.Node{gram.Minimal(sem), gram.Full(sem), gram.Redundant(sem, i%3)} {
			exprElem(syn, k)
			k++
		}
	}
	// facts, rules, checks of the frames corpus
	ground := []gram.Leaf{gram.LInt, gram.LStr, gram.LDate, gram.LBytes, gram.LBool, gram.LSet, gram.LParam, c15Leaves[8], c15Leaves[9]}
	add(gram.Pred{Name: "zero"}.Tokens(), nil)
	for _, a := range ground {
		for _, b := range ground {
			p := gram.Pred{Name: "f", Terms: []gram.Leaf{a, b}}
			pm := map[string]rx.Val{}
			p.Params(pm)
			add(p.Tokens(), pm)
		}
	}
	for _, l := range c15Leaves[8:] {
		if l.Val.K == rx.KVar {
			continue
		}
		// as a fact term, in a rule head, in a rule body and in a check
		add(gram.Pred{Name: "lit", Terms: []gram.Leaf{l, gram.LInt}}.Tokens(), nil)
		hb := gram.Pred{Name: "b", Terms: []gram.Leaf{gram.LVarX, l}}
		add(gram.RuleToks(gram.Pred{Name: "hl", Terms: []gram.Leaf{l, gram.LVarX}}, gram.Body{{P: &px}}), nil)
		add(gram.RuleToks(gram.Pred{Name: "hl", Terms: []gram.Leaf{gram.LVarX}}, gram.Body{{P: &hb}}), nil)
		add(gram.QueriesToks("check if", []gram.Body{{{P: &hb}}, {{P: &px}}}), nil)
	}
	p1 := gram.Pred{Name: "b", Terms: []gram.Leaf{gram.LVarX, gram.LStr}}
	p2 := gram.Pred{Name: "read", Terms: []gram.Leaf{gram.LVarY, gram.LVarX}}
	e1 := gram.Minimal(gram.Bin(rx.And, gram.Bin(rx.LessThan, gram.Lf(gram.LVarX), gram.Lf(gram.LInt)), gram.Not(gram.Lf(gram.LBool))))
	add(gram.RuleToks(gram.Pred{Name: "h2", Terms: []gram.Leaf{gram.LVarX, gram.LVarY, gram.LInt}}, gram.Body{{P: &p1}, {P: &p2}, {E: e1}}), nil)
	add(gram.RuleToks(gram.Pred{Name: "h0"}, gram.Body{{E: gram.Lf(gram.LBool)}}), nil)
	add(gram.QueriesToks("check if", []gram.Body{{{P: &p1}}, {{P: &p2}, {E: e1}}, {{E: gram.Lf(gram.LBool)}}}), nil)
	add(gram.QueriesToks("check if", []gram.Body{{{P: &p1}, {E: e1}, {E: gram.Minimal(gram.Bin(rx.Contains, gram.Lf(gram.LSet), gram.Lf(gram.LVarX)))}}}), nil)
	return out
}

func init() {
	register(&sup.Check{
		ID:           "C15",
		Level:        "exploration",
		Technique:    "bounded-exhaustive print-then-parse over grammar-generated blocks on the printable domain, in every block position, with the original parse as reference",
		Rule:         "elements: every operator on every pair of 8 printable term kinds, every depth-2 expression tree over all 19 operators in three parenthesisations, boundary literals (empty string, empty byte array, 0, 1970-01-01, variables named like default symbols or digits), facts over every pair of 9 ground term kinds, multi-element rules and multi-query checks; each element alone (and with a neighbour) is parsed from text, put into the authority block, block 1 or block 2 of a token, printed with Biscuit.String() (all positions) and Biscuit.Code() (later blocks), read back by a reader that only undoes the printers' framing, and parsed again. Oracle: the re-parsed facts, rules and checks equal the original parse structurally; String() and Code() do not panic and are identical after Serialize+Unmarshal. Non-trivial = every element; distinct by construction.",
		Assume:       []string{"printable domain of the statement: strings without quote, backslash or newline; non-negative integer literals; dates from 1970; sets of non-string elements", "a failure of the harness's reader on in-domain text is reported as a violation of faithfulness only when the text the library printed cannot be parsed by the library's own parser"},
		Procs:        func(string) int { return 16 },
		SingleThread: true,
		Spaces: func(c *sup.Ctx) []*sup.Space {
			elems := c15Elements(c)
			filler := refdl.Block{Facts: []refdl.Atom{atom("filler", rx.Str("abc"), rx.Int(1))}}
			return []*sup.Space{{Name: "print-parse", Size: func(*sup.Ctx) int64 { return int64(len(elems)) * 3 }, Run: func(i int64, w *sup.W) {
				pos := int(i % 3)
				e := elems[i/3]
				// one element, plus the next element of the corpus as a neighbour in the same block for odd indexes
				toks := append(append([]string{}, e.toks...), ";")
				params := map[string]rx.Val{}
				for k, v := range e.params {
					params[k] = v
				}
				if (i/3)%2 == 1 {
					n := elems[(i/3+1)%int64(len(elems))]
					toks = append(append(toks, n.toks...), ";")
					for k, v := range n.params {
						params[k] = v
					}
				}
				src := gram.Join(toks, 0)
				human := fmt.Sprintf("block %q as %s", src, []string{"authority block", "block 1", "block 2"}[pos])
				pb, err := c14Parser(w).Block(src, c14Params(params))
				if err != nil {
					w.Class("corpus-rejected")
					w.Violate("C15:grammatical-text-rejected", human, err.Error(), "parses (C14)")
					return
				}
				orig, err := hx.BackBlock(pb)
				if err != nil {
					w.Violate("C15:malformed-parse", human, err.Error(), "well-formed")
					return
				}
				// build the token with the parsed block at the chosen position
				_, priv := hx.Keys(1)
				// another issuer's builder is open in the same process while this token is made; it is
				// built afterwards
				abandoned := biscuit.NewBuilder(priv, biscuit.WithRNG(hx.NewRNG(9)))
				hx.FillBuilder(abandoned, refdl.Block{Facts: []refdl.Atom{atom("abandoned", rx.Str("abandoned-string-1"), rx.Str("abandoned-string-2"))}})
				b := biscuit.NewBuilder(priv, biscuit.WithRNG(hx.NewRNG(1)))
				var tok *biscuit.Biscuit
				build := func() error {
					if pos == 0 {
						if err := b.AddBlock(pb); err != nil {
							return err
						}
					} else if err := hx.FillBuilder(b, filler); err != nil {
						return err
					}
					t, err := b.Build()
					if err != nil {
						return err
					}
					for k := 1; k <= 2; k++ {
						bb := t.CreateBlock()
						if k == pos {
							if err := bb.AddBlock(pb); err != nil {
								return err
							}
						} else if err := hx.FillBlock(bb, refdl.Block{Facts: []refdl.Atom{atom("filler", rx.Int(int64(k)))}}); err != nil {
							return err
						}
						if t, err = t.Append(hx.NewRNG(uint64(k+1)), bb.Build()); err != nil {
							return err
						}
					}
					tok = t
					return nil
				}
				if err := build(); err != nil {
					// e.g. a duplicate fact when the neighbour equals the element: not a printing matter
					w.Class("not-buildable")
					return
				}
				sup.Catch(func() { abandoned.Build() })
				var str string
				var code []string
				if r, stack := sup.Catch(func() { str = tok.String(); code = tok.Code() }); r != nil {
					w.Class("panic")
					w.Violate("C15:panic-in-printer:"+sup.PanicSig(stack), human, fmt.Sprint(r), "text")
					return
				}
				ser, err := tok.Serialize()
				if err == nil {
					if re, err := biscuit.Unmarshal(ser); err == nil {
						if re.String() != str || strings.Join(re.Code(), "\x00") != strings.Join(code, "\x00") {
							w.Class("print-changes-after-reload")
							w.Violate("C15:printed-form-differs-after-serialization", human, re.String(), str)
							return
						}
					}
				}
				blocks, err := readStringBlocks(str)
				if err != nil || len(blocks) != 3 {
					w.Class("unreadable")
					w.Violate("C15:printed-token-not-readable", human, fmt.Sprintf("%v in %s", err, str), "three blocks with facts/rules/checks lines")
					return
				}
				pbk := blocks[pos]
				var el []string
				el = append(append(append(el, pbk.facts...), pbk.rules...), pbk.checks...)
				compare := func(printer string, el []string) bool {
					back, err := parseBack(w, el)
					if err != nil {
						w.Class("printed-text-does-not-parse")
						w.Violate("C15:printed-text-does-not-parse:"+printer, human, err.Error(), "the printed block parses back")
						return false
					}
					if back.String() != orig.String() {
						w.Class("printed-text-means-something-else")
						w.Violate("C15:printed-text-parses-to-different-content:"+printer, human, fmt.Sprintf("printed %q parses to %s", strings.Join(el, " ; "), back), orig.String())
						return false
					}
					return true
				}
				if !compare("String", el) {
					return
				}
				if pos > 0 {
					ce, err := readCodeBlock(code[pos-1])
					if err != nil {
						w.Violate("C15:code-not-readable", human, err.Error(), "Block { … }")
						return
					}
					if !compare("Code", ce) {
						return
					}
				}
				w.Class(fmt.Sprintf("faithful:block-%d", pos))
				w.NontrivialByIndex()
				if w.WantSample(fmt.Sprint(pos)) {
					w.Sample(fmt.Sprint(pos), map[string]string{"source": src, "position": fmt.Sprint(pos), "printed": strings.Join(el, " ; ")})
				}
			}}}
		},
	})
}
