package props

import (
	"fmt"
	"strings"
	"time"

	biscuit "github.com/biscuit-auth/biscuit-go/v2"
	"github.com/biscuit-auth/biscuit-go/v2/datalog"

	"verif/internal/hx"
	"verif/internal/refdl"
	rx "verif/internal/refexpr"
	"verif/internal/sup"
)

// C12 — determinism and independence of presentation order, decided
// differentially: every presentation variant of a scenario must give the
// observation of the canonical presentation.

var c12Panel = []refdl.Rule{
	rule(atom("out", vx), atom("q", vx)),
	rule(atom("out", vx, vy), atom("r", vx, vy)),
	rule(atom("out"), atom("z")),
	rule(atom("out", vx), atom("p", vx)),
}

// c12Observe: Authorize n times on one authorizer, Query panel after each.
// c12MaxFacts, when positive, is the fact limit the next observations run with (per worker).
func c12Observe(w *sup.W, s refdl.Scenario, dup int, repeats int) (string, bool) {
	maxFacts, _ := w.Local["c12MaxFacts"].(int)
	return c12ObserveLimit(w, s, dup, repeats, maxFacts)
}

func c12ObserveLimit(w *sup.W, s refdl.Scenario, dup int, repeats int, maxFacts int) (string, bool) {
	tok, err := cachedToken(w, s.Authority, s.Blocks)
	if err != nil {
		return "build-error: " + err.Error(), false
	}
	opts := []biscuit.AuthorizerOption{hx.LongLimits}
	if maxFacts > 0 {
		opts = []biscuit.AuthorizerOption{biscuit.WithWorldOptions(datalog.WithMaxDuration(time.Hour), datalog.WithMaxFacts(maxFacts))}
	}
	a, err := hx.Authorizer(tok, refdl.Block{}, nil, opts...)
	if err != nil {
		return "authorizer-error", false
	}
	for i, f := range s.Auth.Facts {
		a.AddFact(hx.Fact(f))
		if i == dup {
			a.AddFact(hx.Fact(f))
		}
	}
	for _, r := range s.Auth.Rules {
		a.AddRule(hx.Rule(r))
	}
	for _, c := range s.Auth.Checks {
		a.AddCheck(hx.Check(c))
	}
	for _, p := range s.Policies {
		a.AddPolicy(hx.Policy(p))
	}
	var obs []string
	for n := 0; n < repeats; n++ {
		err := a.Authorize()
		o := hx.Classify(err)
		if fc := hx.FailedChecks(err); len(fc) > 0 {
			o += fmt.Sprintf("[%d failed]", len(fc))
		}
		for _, qr := range c12Panel {
			ks, qerr := hx.QuerySet(a, qr)
			if qerr != nil {
				o += " error"
			} else {
				o += " " + hx.JoinKeys(ks)
			}
		}
		obs = append(obs, o)
	}
	return strings.Join(obs, " || "), true
}

func permutations(n int) [][]int {
	if n <= 1 {
		return [][]int{identity(n)}
	}
	var out [][]int
	var rec func(cur []int, used uint)
	rec = func(cur []int, used uint) {
		if len(cur) == n {
			out = append(out, append([]int{}, cur...))
			return
		}
		for i := 0; i < n; i++ {
			if used&(1<<uint(i)) == 0 {
				rec(append(cur, i), used|1<<uint(i))
			}
		}
	}
	rec(nil, 0)
	return out
}

func identity(n int) []int {
	p := make([]int, n)
	for i := range p {
		p[i] = i
	}
	return p
}

func permute[T any](xs []T, p []int) []T {
	out := make([]T, len(xs))
	for i, j := range p {
		out[i] = xs[j]
	}
	return out
}

func renameVal(v rx.Val, m map[string]string) rx.Val {
	if v.K == rx.KVar {
		if n, ok := m[v.S]; ok {
			return rx.Var(n)
		}
	}
	return v
}

func renameAtom(a refdl.Atom, m map[string]string) refdl.Atom {
	out := refdl.Atom{Name: a.Name, Terms: make([]rx.Val, len(a.Terms))}
	for i, t := range a.Terms {
		out.Terms[i] = renameVal(t, m)
	}
	return out
}

func renameRule(r refdl.Rule, m map[string]string) refdl.Rule {
	out := refdl.Rule{Head: renameAtom(r.Head, m)}
	for _, a := range r.Body {
		out.Body = append(out.Body, renameAtom(a, m))
	}
	for _, e := range r.Exprs {
		ne := make([]rx.Op, len(e))
		for i, o := range e {
			ne[i] = o
			if o.Kind == rx.OpValue {
				ne[i].V = renameVal(o.V, m)
			}
		}
		out.Exprs = append(out.Exprs, ne)
	}
	return out
}

func renameBlock(b refdl.Block, m map[string]string) refdl.Block {
	out := refdl.Block{Facts: b.Facts, Context: b.Context}
	for _, r := range b.Rules {
		out.Rules = append(out.Rules, renameRule(r, m))
	}
	for _, c := range b.Checks {
		nc := refdl.Check{}
		for _, qq := range c.Queries {
			nc.Queries = append(nc.Queries, renameRule(qq, m))
		}
		out.Checks = append(out.Checks, nc)
	}
	return out
}

// variable renamings: plain, swapped, names equal to default-table strings,
// names equal to predicate names and string constants of the scenario
var c12Renamings = []map[string]string{
	{"x": "a1", "y": "b2"},
	{"x": "y", "y": "x"},
	{"x": "read", "y": "operation"},
	{"x": "p", "y": "q"},
	{"x": "0", "y": "1"},
	{"x": "f", "y": "z"},
}

type c12Variant struct {
	name string
	s    refdl.Scenario
	dup  int
}

// c12Dims returns, per dimension, the alternative presentations of s.
type c12Dim struct {
	name string
	alts []func(*refdl.Scenario)
}

func c12Dims(s refdl.Scenario) []c12Dim {
	var dims []c12Dim
	addPerm := func(name string, n int, apply func(sc *refdl.Scenario, p []int)) {
		if n < 2 {
			return
		}
		var alts []func(*refdl.Scenario)
		for _, p := range permutations(n)[1:] {
			p := p
			alts = append(alts, func(sc *refdl.Scenario) { apply(sc, p) })
		}
		dims = append(dims, c12Dim{"permute-" + name, alts})
	}
	addPerm("authorizer-facts", len(s.Auth.Facts), func(sc *refdl.Scenario, p []int) { sc.Auth.Facts = permute(sc.Auth.Facts, p) })
	addPerm("authorizer-rules", len(s.Auth.Rules), func(sc *refdl.Scenario, p []int) { sc.Auth.Rules = permute(sc.Auth.Rules, p) })
	addPerm("authorizer-checks", len(s.Auth.Checks), func(sc *refdl.Scenario, p []int) { sc.Auth.Checks = permute(sc.Auth.Checks, p) })
	addPerm("authority-facts", len(s.Authority.Facts), func(sc *refdl.Scenario, p []int) { sc.Authority.Facts = permute(sc.Authority.Facts, p) })
	addPerm("authority-rules", len(s.Authority.Rules), func(sc *refdl.Scenario, p []int) { sc.Authority.Rules = permute(sc.Authority.Rules, p) })
	addPerm("authority-checks", len(s.Authority.Checks), func(sc *refdl.Scenario, p []int) { sc.Authority.Checks = permute(sc.Authority.Checks, p) })
	for bi := range s.Blocks {
		bi := bi
		addPerm("block-facts", len(s.Blocks[bi].Facts), func(sc *refdl.Scenario, p []int) { sc.Blocks[bi].Facts = permute(sc.Blocks[bi].Facts, p) })
		addPerm("block-rules", len(s.Blocks[bi].Rules), func(sc *refdl.Scenario, p []int) { sc.Blocks[bi].Rules = permute(sc.Blocks[bi].Rules, p) })
		addPerm("block-checks", len(s.Blocks[bi].Checks), func(sc *refdl.Scenario, p []int) { sc.Blocks[bi].Checks = permute(sc.Blocks[bi].Checks, p) })
	}
	// queries inside each check with 2 queries
	swapQ := func(get func(sc *refdl.Scenario) []refdl.Check) {
		for ci, c := range get(&s) {
			if len(c.Queries) == 2 {
				ci := ci
				dims = append(dims, c12Dim{"swap-check-queries", []func(*refdl.Scenario){func(sc *refdl.Scenario) {
					cs := get(sc)
					// composed with a permutation of the checks (thorough: pairs of changes) the
					// two-query check may sit at another index: swap the one that is there
					ci := ci
					if ci >= len(cs) || len(cs[ci].Queries) != 2 {
						ci = -1
						for k := range cs {
							if len(cs[k].Queries) == 2 {
								ci = k
								break
							}
						}
						if ci < 0 {
							return
						}
					}
					cs[ci] = refdl.Check{Queries: []refdl.Rule{cs[ci].Queries[1], cs[ci].Queries[0]}}
				}}})
			}
		}
	}
	swapQ(func(sc *refdl.Scenario) []refdl.Check { return sc.Auth.Checks })
	swapQ(func(sc *refdl.Scenario) []refdl.Check { return sc.Authority.Checks })
	for bi := range s.Blocks {
		bi := bi
		swapQ(func(sc *refdl.Scenario) []refdl.Check { return sc.Blocks[bi].Checks })
	}
	// body atoms inside rules with 2 body atoms (authorizer rules)
	for ri, r := range s.Auth.Rules {
		if len(r.Body) == 2 {
			ri := ri
			dims = append(dims, c12Dim{"swap-body-atoms", []func(*refdl.Scenario){func(sc *refdl.Scenario) {
				ri := ri
				if ri >= len(sc.Auth.Rules) || len(sc.Auth.Rules[ri].Body) != 2 {
					ri = -1
					for k := range sc.Auth.Rules {
						if len(sc.Auth.Rules[k].Body) == 2 {
							ri = k
							break
						}
					}
					if ri < 0 {
						return
					}
				}
				rr := sc.Auth.Rules[ri]
				sc.Auth.Rules[ri] = refdl.Rule{Head: rr.Head, Body: []refdl.Atom{rr.Body[1], rr.Body[0]}, Exprs: rr.Exprs}
			}}})
		}
	}
	// consistent variable renamings (everywhere at once)
	var ren []func(*refdl.Scenario)
	for _, m := range c12Renamings {
		m := m
		ren = append(ren, func(sc *refdl.Scenario) {
			sc.Auth = renameBlock(sc.Auth, m)
			sc.Authority = renameBlock(sc.Authority, m)
			for i := range sc.Blocks {
				sc.Blocks[i] = renameBlock(sc.Blocks[i], m)
			}
			var np []refdl.Policy
			for _, p := range sc.Policies {
				q2 := refdl.Policy{Allow: p.Allow}
				for _, qq := range p.Queries {
					q2.Queries = append(q2.Queries, renameRule(qq, m))
				}
				np = append(np, q2)
			}
			sc.Policies = np
		})
	}
	dims = append(dims, c12Dim{"rename-variables", ren})
	return dims
}

func cloneScenario(s refdl.Scenario) refdl.Scenario {
	cb := func(b refdl.Block) refdl.Block {
		return refdl.Block{Facts: append([]refdl.Atom{}, b.Facts...), Rules: append([]refdl.Rule{}, b.Rules...), Checks: append([]refdl.Check{}, b.Checks...), Context: b.Context}
	}
	out := refdl.Scenario{Authority: cb(s.Authority), Auth: cb(s.Auth), Policies: append([]refdl.Policy{}, s.Policies...)}
	for _, b := range s.Blocks {
		out.Blocks = append(out.Blocks, cb(b))
	}
	return out
}

func subsetsOf[T any](xs []T) [][]T {
	var out [][]T
	for m := 0; m < 1<<uint(len(xs)); m++ {
		var s []T
		for k := range xs {
			if m&(1<<uint(k)) != 0 {
				s = append(s, xs[k])
			}
		}
		out = append(out, s)
	}
	return out
}

func c12Bases(c *sup.Ctx) []refdl.Scenario {
	azFacts := subsetsOf([]refdl.Atom{atom("p", i0), atom("q", i1), atom("r", i0, i1)})
	auFacts := subsetsOf([]refdl.Atom{atom("p", i1), atom("q", i0), atom("r", i1, i0)})
	azRules := subsetsOf([]refdl.Rule{rule(atom("q", vx), atom("p", vx)), rule(atom("r", vx, vy), atom("r", vy, vx)), rule(atom("z"), atom("p", vx), atom("q", vx))})
	auRules := subsetsOf([]refdl.Rule{rule(atom("p", vy), atom("r", vx, vy)), rule(atom("q", vx), atom("p", vx), atom("r", vx, vx))})
	// the third check joins three atoms: its result must not depend on the order of the facts
	azChecks := subsetsOf([]refdl.Check{chk(q(atom("q", i0))), chk(q(atom("z")), q(atom("q", i1))), chk(q(atom("p", vx), atom("q", vy), atom("r", vx, vy)))})
	auChecks := subsetsOf([]refdl.Check{chk(q(atom("p", vx), atom("q", vx))), chk(q(atom("r", vx, vy), atom("p", vy)), q(atom("z")))})
	blocks := [][]refdl.Block{
		{},
		{{Facts: []refdl.Atom{atom("p", i0), atom("q", rx.Int(2))}, Rules: []refdl.Rule{rule(atom("z"), atom("p", vx)), rule(atom("q", vx), atom("p", vx))}, Checks: []refdl.Check{chk(q(atom("z"))), chk(q(atom("q", i0)), q(atom("p", i1)))}}},
		// blocks that bring rules but no fact of their own (the block's world has exactly the facts of the
		// authority level, and as many rules as some authority/authorizer combinations)
		{{Rules: []refdl.Rule{rule(atom("z"), atom("p", vx))}, Checks: []refdl.Check{chk(q(atom("z")))}}},
		{{Rules: []refdl.Rule{rule(atom("z"), atom("p", vx)), rule(atom("q", vx), atom("p", vx))}, Checks: []refdl.Check{chk(q(atom("z"))), chk(q(atom("q", i0)), q(atom("p", i1)))}}},
	}
	if c.Quick() {
		azFacts = [][]refdl.Atom{azFacts[0], azFacts[3], azFacts[5], azFacts[7]}
		auFacts = [][]refdl.Atom{auFacts[0], auFacts[2], auFacts[5], auFacts[7]}
		azRules = [][]refdl.Rule{azRules[0], azRules[1], azRules[6], azRules[7]}
	}
	pol := []refdl.Policy{deny(q(atom("r", i1, i1))), allow(q(atom("q", i1))), allow(q(atom("z")))}
	var out []refdl.Scenario
	// set-valued facts read by several checks, some of which compute with the set: the
	// checks only read the fact, so their order cannot matter
	scopes := atom("scopes", rx.SetOf(rx.Str("admin"), rx.Str("read"), rx.Str("write")))
	vs := rx.Var("s")
	setChecks := []refdl.Check{
		chk(qe([]refdl.Atom{atom("scopes", vs)}, binExpr(vs, rx.Contains, rx.Str("admin")))),
		chk(qe([]refdl.Atom{atom("scopes", vs)}, []rx.Op{{Kind: rx.OpValue, V: vs}, {Kind: rx.OpValue, V: rx.SetOf(rx.Str("read"), rx.Str("write"))}, {Kind: rx.OpBinary, B: rx.Intersection}, {Kind: rx.OpUnary, U: rx.Length}, {Kind: rx.OpValue, V: rx.Int(2)}, {Kind: rx.OpBinary, B: rx.Equal}})),
		chk(qe([]refdl.Atom{atom("scopes", vs)}, []rx.Op{{Kind: rx.OpValue, V: vs}, {Kind: rx.OpValue, V: rx.SetOf(rx.Str("root"))}, {Kind: rx.OpBinary, B: rx.Union}, {Kind: rx.OpUnary, U: rx.Length}, {Kind: rx.OpValue, V: rx.Int(4)}, {Kind: rx.OpBinary, B: rx.Equal}})),
	}
	setPol := []refdl.Policy{allow(qe([]refdl.Atom{atom("scopes", vs)}, binExpr(vs, rx.Contains, rx.Str("read"))))}
	// two checks with regular expressions of their own: in another order the patterns are
	// interned at each other's symbol index
	vn := rx.Var("n")
	reChecks := []refdl.Check{
		chk(qe([]refdl.Atom{atom("path", vn)}, binExpr(vn, rx.Regex, rx.Str("^/a/")))),
		chk(qe([]refdl.Atom{atom("name", vn)}, binExpr(vn, rx.Regex, rx.Str("\\.txt$")))),
	}
	for checksIn := 0; checksIn < 3; checksIn++ {
		for _, path := range []string{"/a/file.txt", "/a/file.pdf"} {
			s := refdl.Scenario{Policies: []refdl.Policy{allow(qTrue)}, Blocks: []refdl.Block{{}}}
			s.Auth.Facts = []refdl.Atom{atom("path", rx.Str("/a/dir")), atom("name", rx.Str(path))}
			switch checksIn {
			case 0:
				s.Auth.Checks = reChecks
			case 1:
				s.Authority.Checks = reChecks
			case 2:
				s.Blocks[0].Checks = reChecks
			}
			out = append(out, s)
		}
	}
	for factIn := 0; factIn < 2; factIn++ {
		for checksIn := 0; checksIn < 3; checksIn++ {
			s := refdl.Scenario{Policies: setPol, Blocks: []refdl.Block{{}}}
			if factIn == 0 {
				s.Auth.Facts = []refdl.Atom{scopes}
			} else {
				s.Authority.Facts = []refdl.Atom{scopes}
			}
			switch checksIn {
			case 0:
				s.Auth.Checks = setChecks
			case 1:
				s.Authority.Checks = setChecks
			case 2:
				s.Blocks[0].Checks = setChecks
			}
			out = append(out, s)
		}
	}
	for _, af := range azFacts {
		for _, uf := range auFacts {
			for _, ar := range azRules {
				for _, ur := range auRules {
					for _, ac := range azChecks {
						for _, uc := range auChecks {
							for _, bl := range blocks {
								out = append(out, refdl.Scenario{Authority: refdl.Block{Facts: uf, Rules: ur, Checks: uc}, Blocks: bl, Auth: refdl.Block{Facts: af, Rules: ar, Checks: ac}, Policies: pol})
							}
						}
					}
				}
			}
		}
	}
	return out
}

func init() {
	register(&sup.Check{
		ID:           "C12",
		Level:        "exploration",
		Technique:    "bounded-exhaustive differential enumeration of presentation variants (all permutations per dimension, pairs of dimensions, renamings, duplication, repetition) on the real authorizer",
		Rule:         "for every base scenario of a product (authorizer facts/rules/checks, authority facts/rules/checks, optional block; up to 3 facts, 3 rules, 2 checks with 1-2 queries per source; fixed ordered policies): every permutation of each collection, each check's queries swapped, body atoms swapped, 6 consistent variable renamings (incl. names equal to default symbols, predicate names and constants); in the thorough tier also every pair of such changes; each authorizer fact duplicated; Authorize called 3 times on the same authorizer with a 4-rule Query panel after each call. Oracle: observation equals the canonical presentation's. Non-trivial = the variant differs from the canonical presentation; distinct by construction.",
		Assume:       []string{"differential oracle between presentations; the canonical presentation's correctness is C04's business"},
		Procs:        func(string) int { return 16 },
		SingleThread: true,
		Spaces: func(c *sup.Ctx) []*sup.Space {
			bases := c12Bases(c)
			pairs := c.Thorough()
			return []*sup.Space{{Name: "presentation-variants", Size: func(*sup.Ctx) int64 { return int64(len(bases)) }, Run: func(i int64, w *sup.W) {
				base := bases[i]
				canon, ok := c12Observe(w, base, -1, 3)
				if !ok {
					w.Class("build-error")
					w.Violate("C12:cannot-build", base.String(), canon, "a token")
					return
				}
				// repetition: the three rounds must agree
				rounds := strings.Split(canon, " || ")
				for n := 1; n < len(rounds); n++ {
					if rounds[n] != rounds[0] {
						w.Class("repetition-differs")
						w.Violate("C12:second-authorize-differs", base.String(), fmt.Sprintf("call %d: %s", n+1, rounds[n]), "call 1: "+rounds[0])
						return
					}
				}
				check := func(name string, v refdl.Scenario, dup int) bool {
					got, ok := c12Observe(w, v, dup, 1)
					if !ok {
						w.Class("build-error")
						return true
					}
					w.Class("variant")
					w.NontrivialByIndex()
					if got != rounds[0] {
						w.Violate("C12:"+strings.SplitN(name, "#", 2)[0], "canonical: "+base.String()+"  variant("+name+"): "+v.String(), got, rounds[0])
						return false
					}
					return true
				}
				dims := c12Dims(base)
				for _, dim := range dims {
					for ai, alt := range dim.alts {
						v := cloneScenario(base)
						alt(&v)
						if !check(fmt.Sprintf("%s#%d", dim.name, ai), v, -1) {
							return
						}
					}
				}
				if pairs {
					for d1 := range dims {
						for d2 := d1 + 1; d2 < len(dims); d2++ {
							for _, a1 := range dims[d1].alts {
								for _, a2 := range dims[d2].alts {
									v := cloneScenario(base)
									a1(&v)
									a2(&v)
									if !check(dims[d1].name+"+"+dims[d2].name, v, -1) {
										return
									}
								}
							}
						}
					}
				}
				for k := range base.Auth.Facts {
					if !check("duplicate-fact", base, k) {
						return
					}
				}
				// under the tightest fact limit that lets the canonical presentation through, repeating
				// Authorize and duplicating a fact still change nothing (they add no fact)
				for mf := 1; mf <= 40; mf++ {
					one, ok := c12ObserveLimit(w, base, -1, 1, mf)
					if !ok || strings.HasPrefix(one, "limit") {
						continue
					}
					rep, _ := c12ObserveLimit(w, base, -1, 4, mf)
					for n, r := range strings.Split(rep, " || ") {
						w.Class("variant")
						if r != one {
							w.Violate("C12:repeated-authorize-under-a-tight-fact-limit", fmt.Sprintf("%s with WithMaxFacts(%d)", base.String(), mf), fmt.Sprintf("call %d: %s", n+1, r), "call 1: "+one)
							return
						}
					}
					for k := range base.Auth.Facts {
						w.Class("variant")
						if got, _ := c12ObserveLimit(w, base, k, 1, mf); got != one {
							w.Violate("C12:duplicate-fact-under-a-tight-fact-limit", fmt.Sprintf("%s with WithMaxFacts(%d), authorizer fact %d added twice", base.String(), mf, k), got, one)
							return
						}
					}
					break
				}
				w.Class("base:" + strings.SplitN(rounds[0], " ", 2)[0])
				cls := strings.SplitN(rounds[0], " ", 2)[0]
				if w.WantSample(cls) {
					w.Sample(cls, map[string]string{"canonical": base.String(), "observation": rounds[0], "dimensions": fmt.Sprint(len(dims))})
				}
			}}}
		},
	})
}
