package props

import (
	"fmt"
	"strings"

	biscuit "github.com/biscuit-auth/biscuit-go/v2"

	"verif/internal/hx"
	"verif/internal/refdl"
	rx "verif/internal/refexpr"
	"verif/internal/sup"
)

// C04-S6: the verdict is a function of the token and of the authorizer's
// facts, rules, checks and policies - whatever route they took into the
// authorizer. Routes: the content of two earlier requests was evaluated and
// Reset before this one; the content arrives as a snapshot (LoadPolicies); both.
func c04S6(c *sup.Ctx) *sup.Space {
	lists := policyLists(c04Policies, 2)
	routes := []string{"two earlier requests, Reset after each", "LoadPolicies(snapshot of the content)", "an earlier request, Reset, LoadPolicies(snapshot)",
		"the token is the first of two attenuations of a parent that already carries three blocks; the second (whose check fails) is made afterwards"}
	// the earlier requests make every policy atom true, carry a failing check and a deny-all policy
	var all []refdl.Atom
	for _, n := range c04PolAtoms {
		all = append(all, atom(n))
	}
	warm := []struct {
		blk refdl.Block
		pol []refdl.Policy
	}{
		{refdl.Block{Facts: all}, []refdl.Policy{allow(qTrue)}},
		{refdl.Block{Facts: all[:2], Checks: []refdl.Check{chk(qFalse)}}, []refdl.Policy{deny(qTrue)}},
	}
	const modes = 4 // 0 facts in the token, no checks; 1 facts in the authorizer; 2 authorizer check fails; 3 block check fails
	size := int64(len(lists)) * 16 * modes * int64(len(routes))
	return &sup.Space{Name: "S6-content-routes", Size: func(*sup.Ctx) int64 { return size }, Run: func(i int64, w *sup.W) {
		route := int(i % int64(len(routes)))
		i /= int64(len(routes))
		mode := int(i % modes)
		i /= modes
		truth := int(i % 16)
		pl := lists[i/16]
		var facts []refdl.Atom
		for k, n := range c04PolAtoms {
			if truth&(1<<uint(k)) != 0 {
				facts = append(facts, atom(n))
			}
		}
		s := refdl.Scenario{Policies: pl}
		switch mode {
		case 0:
			s.Authority.Facts = facts
		case 1:
			s.Auth.Facts = facts
		case 2:
			s.Authority.Facts = facts
			s.Auth.Checks = []refdl.Check{chk(qTrue), chk(qFalse)}
		case 3:
			s.Auth.Facts = facts
			s.Blocks = []refdl.Block{{Checks: []refdl.Check{chk(qTrue)}}, {Checks: []refdl.Check{chk(qFalse)}}}
		}
		human := fmt.Sprintf("%s; content reaches the authorizer by: %s", s.String(), routes[route])
		var tok *biscuit.Biscuit
		var err error
		if route == 3 {
			// three empty blocks, then the scenario's blocks (at least one), with a sibling in between
			own := append([]refdl.Block{}, s.Blocks...)
			if len(own) == 0 {
				own = []refdl.Block{{}}
			}
			var parent *biscuit.Biscuit
			parent, err = hx.Token(1, 7, s.Authority, []refdl.Block{{}, {}, {}})
			if err == nil {
				tok = parent
				for k, b := range own {
					bb := tok.CreateBlock()
					if err = hx.FillBlock(bb, b); err != nil {
						break
					}
					if tok, err = tok.Append(hx.NewRNG(uint64(300+k)), bb.Build()); err != nil {
						break
					}
					if k == 0 {
						sb := parent.CreateBlock()
						hx.FillBlock(sb, refdl.Block{Facts: []refdl.Atom{atom("sibling", rx.Str("only"))}, Checks: []refdl.Check{chk(qFalse)}})
						if _, e := parent.Append(hx.NewRNG(399), sb.Build()); e != nil {
							err = e
							break
						}
					}
				}
			}
			s.Blocks = append([]refdl.Block{{}, {}, {}}, own...)
		} else {
			tok, err = cachedToken(w, s.Authority, s.Blocks)
		}
		if err != nil {
			w.Violate("S6:token-build-failed", human, err.Error(), "a token")
			return
		}
		a, _ := biscuit.NewVerifier(tok, hx.LongLimits)
		snapshot := func() []byte {
			scratch, _ := biscuit.NewVerifier(tok, hx.LongLimits)
			hx.Load(scratch, s.Auth, s.Policies)
			b, _ := scratch.SerializePolicies()
			return b
		}
		round := func(k int) {
			hx.Load(a, warm[k].blk, warm[k].pol)
			a.Authorize()
			a.Reset()
		}
		switch route {
		case 3:
			hx.Load(a, s.Auth, s.Policies)
		case 0:
			round(0)
			round(1)
			hx.Load(a, s.Auth, s.Policies)
		case 1:
			if err := a.LoadPolicies(snapshot()); err != nil {
				w.Violate("S6:load-failed", human, err.Error(), "nil")
				return
			}
		case 2:
			round(0)
			if err := a.LoadPolicies(snapshot()); err != nil {
				w.Violate("S6:load-failed", human, err.Error(), "nil")
				return
			}
		}
		aerr := a.Authorize()
		got, failed := hx.Classify(aerr), hx.FailedChecks(aerr)
		ref := refdl.Decide(s)
		want := hx.RefClass(ref)
		if got != want {
			w.Class("wrong-verdict")
			w.Violate(fmt.Sprintf("S6:verdict:%s-instead-of-%s", got, want), human, fmt.Sprintf("%s (%v)", got, aerr), fmt.Sprintf("%s (failed checks %v, first matching policy %d)", want, ref.FailedChecks, ref.Policy))
			return
		}
		if ref.Class == refdl.CheckFail && len(failed) > 0 {
			rf := append([]string{}, ref.FailedChecks...)
			sortStrings(rf)
			if !sameStrings(failed, rf) {
				w.Class("wrong-failed-checks")
				w.Violate("S6:failed-check-list", human, strings.Join(failed, ","), strings.Join(rf, ","))
				return
			}
		}
		w.Class(want)
		w.NontrivialByIndex()
		if w.WantSample(want) {
			w.Sample(want, map[string]string{"scenario": human, "verdict": want})
		}
	}}
}
