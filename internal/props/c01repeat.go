package props

import (
	"crypto/ed25519"
	"fmt"

	biscuit "github.com/biscuit-auth/biscuit-go/v2"

	"verif/internal/hx"
	"verif/internal/sup"
)

// Repeated verification of ONE token object under several roots, in every
// order, with the keys passed either as distinct slices or through a single
// buffer that the caller overwrites between calls: the verdict of every call
// must be the verdict of a fresh Unmarshal+AuthorizerFor under that key (no
// verdict may be remembered across calls or tied to the caller's buffer).
func c01RepeatSpace() *sup.Space {
	name := "repeated-verification-of-one-object"
	orders := permutations(3)
	return &sup.Space{Name: name, Size: func(*sup.Ctx) int64 { return 56 * int64(len(orders)) * 2 }, Run: func(i int64, w *sup.W) {
		pool, _, err := c01Shared()
		if err != nil || len(pool) != 56 {
			if i == 0 {
				w.Violate("C01:pool-construction-failed", "pool", fmt.Sprint(err), "56 tokens")
			}
			return
		}
		reuse := i%2 == 1
		i /= 2
		order := orders[i%int64(len(orders))]
		t := pool[i/int64(len(orders))]
		tok, err := biscuit.Unmarshal(t.Bytes)
		if err != nil {
			w.Violate("C01:pool-token-does-not-reload", t.Name, err.Error(), "a token")
			return
		}
		roots := []int{1, 2, 0}
		buf := make([]byte, ed25519.PublicKeySize)
		var hist []string
		for _, k := range order {
			root := roots[k]
			var key ed25519.PublicKey
			if reuse {
				copy(buf, rootPub(root))
				key = buf
			} else {
				key = append(ed25519.PublicKey{}, rootPub(root)...)
			}
			_, err := tok.AuthorizerFor(biscuit.WithSingularRootPublicKey(key), hx.LongLimits)
			want := root == t.Root
			hist = append(hist, fmt.Sprintf("root%d:%v", root, err == nil))
			w.Stats().States++
			w.Stats().Transitions++
			if (err == nil) != want {
				w.Class("verdict-depends-on-history")
				w.Violate("C01:repeated-verification-verdict", fmt.Sprintf("pool token %s verified on one object under roots in order %v (key buffer reused=%v): %v", t.Name, order, reuse, hist), fmt.Sprintf("accepted=%v under root %d", err == nil, root), fmt.Sprintf("accepted=%v (the verdict of a fresh verification)", want))
				return
			}
		}
		w.Class("consistent")
		w.NontrivialByIndex()
	}}
}
