// Package gram enumerates derivations of the documented Datalog grammar
// (parser/GRAMMAR.md): expression syntax trees with explicit parentheses,
// terms of every kind, facts, rules, checks, policies, blocks and authorizers.
// Every derivation carries its own denotation (the harness-level structure it
// must parse to), so the generator's syntax tree is the reference.
package gram

import (
	"fmt"
	"strings"

	"verif/internal/refdl"
	rx "verif/internal/refexpr"
)

// ---- terms ------------------------------------------------------------------------

// Leaf is a term as written (one token, or several for a set) with its value.
type Leaf struct {
	Toks []string
	Val  rx.Val
	// Param: the term is a {parameter}; Val is the value it is bound to
	Param string
}

func L(text string, v rx.Val) Leaf { return Leaf{Toks: []string{text}, Val: v} }

// Leaves: one representative of each of the 8 term kinds of the grammar.
var (
	LVarX   = L("$x", rx.Var("x"))
	LVarY   = L("$y", rx.Var("y"))
	LInt    = L("7", rx.Int(7))
	LStr    = L(`"abc"`, rx.Str("abc"))
	LDate   = L("2020-05-06T07:08:09Z", rx.Date(1588748889))
	LBytes  = L("hex:0a1f", rx.Bytes([]byte{0x0a, 0x1f}))
	LBool   = L("true", rx.Bool(true))
	LSet    = Leaf{Toks: []string{"[", "1", ",", "2", "]"}, Val: rx.SetOf(rx.Int(1), rx.Int(2))}
	LParam  = Leaf{Toks: []string{"{p}"}, Val: rx.Int(42), Param: "p"}
	LSetStr = Leaf{Toks: []string{"[", `"a"`, "]"}, Val: rx.SetOf(rx.Str("a"))}
)

var AllLeaves = []Leaf{LVarX, LInt, LStr, LDate, LBytes, LBool, LSet, LParam}

// ---- expressions --------------------------------------------------------------------

type NodeKind int

const (
	NLeaf NodeKind = iota
	NParen
	NNot
	NInfix
	NMethod // binary method call recv.m(arg)
	NLength // recv.length()
)

type Node struct {
	Kind NodeKind
	Op   rx.Binary
	L, R *Node
	Leaf Leaf
}

func Lf(l Leaf) *Node      { return &Node{Kind: NLeaf, Leaf: l} }
func Paren(n *Node) *Node  { return &Node{Kind: NParen, L: n} }
func Not(n *Node) *Node    { return &Node{Kind: NNot, L: n} }
func Length(n *Node) *Node { return &Node{Kind: NLength, L: n} }
func Bin(op rx.Binary, l, r *Node) *Node {
	if IsMethod(op) {
		return &Node{Kind: NMethod, Op: op, L: l, R: r}
	}
	return &Node{Kind: NInfix, Op: op, L: l, R: r}
}

var infixText = map[rx.Binary]string{rx.LessThan: "<", rx.LessOrEqual: "<=", rx.GreaterThan: ">", rx.GreaterOrEqual: ">=", rx.Equal: "==", rx.Add: "+", rx.Sub: "-", rx.Mul: "*", rx.Div: "/", rx.And: "&&", rx.Or: "||"}
var methodText = map[rx.Binary]string{rx.Contains: "contains", rx.Prefix: "starts_with", rx.Suffix: "ends_with", rx.Regex: "matches", rx.Intersection: "intersection", rx.Union: "union"}

func IsMethod(op rx.Binary) bool { _, ok := methodText[op]; return ok }

var InfixOps = []rx.Binary{rx.Or, rx.And, rx.LessThan, rx.LessOrEqual, rx.GreaterThan, rx.GreaterOrEqual, rx.Equal, rx.Add, rx.Sub, rx.Mul, rx.Div}
var MethodOps = []rx.Binary{rx.Contains, rx.Prefix, rx.Suffix, rx.Regex, rx.Intersection, rx.Union}

// level: documented precedence (higher binds tighter).
func level(n *Node) int {
	switch n.Kind {
	case NInfix:
		switch n.Op {
		case rx.Or:
			return 1
		case rx.And:
			return 2
		case rx.LessThan, rx.LessOrEqual, rx.GreaterThan, rx.GreaterOrEqual, rx.Equal:
			return 3
		case rx.Add, rx.Sub:
			return 4
		default:
			return 5
		}
	case NNot:
		return 6
	case NMethod, NLength:
		return 7
	}
	return 8
}

// need returns the minimum level each child must have to be written without parentheses.
func need(n *Node) (left, right int) {
	switch n.Kind {
	case NInfix:
		l := level(n)
		if l == 3 {
			return 4, 4 // comparisons are not associative
		}
		return l, l + 1 // left-associative
	case NNot:
		return 7, 0
	case NMethod:
		return 7, 0 // the argument is a complete expression
	case NLength:
		return 7, 0
	}
	return 0, 0
}

// Minimal inserts exactly the parentheses the documented table requires.
func Minimal(n *Node) *Node {
	switch n.Kind {
	case NLeaf:
		return n
	case NParen:
		return Paren(Minimal(n.L))
	}
	out := &Node{Kind: n.Kind, Op: n.Op}
	ln, rn := need(n)
	wrap := func(c *Node, min int) *Node {
		if c == nil {
			return nil
		}
		m := Minimal(c)
		if level(m) < min {
			return Paren(m)
		}
		return m
	}
	out.L = wrap(n.L, ln)
	out.R = wrap(n.R, rn)
	return out
}

// Full parenthesises every non-leaf operand.
func Full(n *Node) *Node {
	switch n.Kind {
	case NLeaf:
		return n
	case NParen:
		return Paren(Full(n.L))
	}
	out := &Node{Kind: n.Kind, Op: n.Op}
	wrap := func(c *Node) *Node {
		if c == nil {
			return nil
		}
		f := Full(c)
		if f.Kind == NLeaf || f.Kind == NParen {
			return f
		}
		return Paren(f)
	}
	out.L = wrap(n.L)
	out.R = wrap(n.R)
	return out
}

// CountNodes counts the nodes of a tree (used to place one redundant pair).
func CountNodes(n *Node) int {
	if n == nil {
		return 0
	}
	return 1 + CountNodes(n.L) + CountNodes(n.R)
}

// Redundant returns Minimal(n) with one extra pair of parentheses around the k-th node (pre-order).
func Redundant(n *Node, k int) *Node {
	m := Minimal(n)
	i := 0
	var rec func(x *Node) *Node
	rec = func(x *Node) *Node {
		if x == nil {
			return nil
		}
		me := i
		i++
		c := &Node{Kind: x.Kind, Op: x.Op, Leaf: x.Leaf}
		c.L = rec(x.L)
		c.R = rec(x.R)
		if me == k {
			return Paren(c)
		}
		return c
	}
	return rec(m)
}

// Tokens renders a syntax tree.
func (n *Node) Tokens() []string {
	switch n.Kind {
	case NLeaf:
		return n.Leaf.Toks
	case NParen:
		return append(append([]string{"("}, n.L.Tokens()...), ")")
	case NNot:
		return append([]string{"!"}, n.L.Tokens()...)
	case NInfix:
		return append(append(append([]string{}, n.L.Tokens()...), infixText[n.Op]), n.R.Tokens()...)
	case NMethod:
		t := append(append([]string{}, n.L.Tokens()...), ".", methodText[n.Op], "(")
		return append(append(t, n.R.Tokens()...), ")")
	case NLength:
		return append(append([]string{}, n.L.Tokens()...), ".", "length", "(", ")")
	}
	return nil
}

// Post is the denotation: the postfix operator list, with a Parens operator
// exactly where the text has parentheses.
func (n *Node) Post() []rx.Op {
	switch n.Kind {
	case NLeaf:
		return []rx.Op{{Kind: rx.OpValue, V: n.Leaf.Val}}
	case NParen:
		return append(n.L.Post(), rx.Op{Kind: rx.OpUnary, U: rx.Parens})
	case NNot:
		return append(n.L.Post(), rx.Op{Kind: rx.OpUnary, U: rx.Negate})
	case NLength:
		return append(n.L.Post(), rx.Op{Kind: rx.OpUnary, U: rx.Length})
	}
	return append(append(n.L.Post(), n.R.Post()...), rx.Op{Kind: rx.OpBinary, B: n.Op})
}

// Params collects the parameter bindings used by the tree.
func (n *Node) Params(into map[string]rx.Val) {
	if n == nil {
		return
	}
	if n.Kind == NLeaf && n.Leaf.Param != "" {
		into[n.Leaf.Param] = n.Leaf.Val
	}
	n.L.Params(into)
	n.R.Params(into)
}

// Depth1 enumerates every operator applied to the given leaves.
func Depth1(leaves []Leaf) []*Node {
	var out []*Node
	for _, a := range leaves {
		out = append(out, Not(Lf(a)), Length(Lf(a)))
		for _, b := range leaves {
			for _, op := range InfixOps {
				out = append(out, Bin(op, Lf(a), Lf(b)))
			}
			for _, op := range MethodOps {
				out = append(out, Bin(op, Lf(a), Lf(b)))
			}
		}
	}
	return out
}

// Compose enumerates every operator applied to every pair (or single) of the given sub-trees.
func Compose(subs []*Node) []*Node {
	var out []*Node
	for _, a := range subs {
		out = append(out, Not(a), Length(a))
		for _, b := range subs {
			for _, op := range InfixOps {
				out = append(out, Bin(op, a, b))
			}
			for _, op := range MethodOps {
				out = append(out, Bin(op, a, b))
			}
		}
	}
	return out
}

// ---- layout --------------------------------------------------------------------------

func wordy(b byte) bool {
	return b == '_' || b == ':' || b == '$' || b == '"' || b == '{' || b == '}' || (b >= '0' && b <= '9') || (b >= 'a' && b <= 'z') || (b >= 'A' && b <= 'Z')
}

// Join renders tokens: layout 0 single spaces, 1 no space where the lexer allows,
// 2 newlines after ';' and spaces elsewhere, 3 tabs.
func Join(toks []string, layout int) string {
	var b strings.Builder
	for i, t := range toks {
		if i > 0 {
			prev := toks[i-1]
			switch layout {
			case 0:
				b.WriteByte(' ')
			case 1:
				// a space is needed only where two tokens would merge into another token
				pl, nf := prev[len(prev)-1], t[0]
				if (wordy(pl) && wordy(nf)) || (pl == '<' && nf == '-') || (pl == '-' && nf == '-') || ((pl == '<' || pl == '>' || pl == '=' || pl == '!') && nf == '=') || (pl == '&' && nf == '&') || (pl == '|' && nf == '|') || (pl == '/' && nf == '/') {
					b.WriteByte(' ')
				}
			case 2:
				if prev == ";" {
					b.WriteString("\n")
				} else {
					b.WriteByte(' ')
				}
			case 3:
				b.WriteByte('\t')
			}
		}
		b.WriteString(t)
	}
	return b.String()
}

// ---- frames ---------------------------------------------------------------------------

// Pred renders a predicate from a name and term leaves.
type Pred struct {
	Name  string
	Terms []Leaf
}

func (p Pred) Tokens() []string {
	t := []string{p.Name, "("}
	for i, l := range p.Terms {
		if i > 0 {
			t = append(t, ",")
		}
		t = append(t, l.Toks...)
	}
	return append(t, ")")
}

func (p Pred) Atom() refdl.Atom {
	a := refdl.Atom{Name: p.Name}
	for _, l := range p.Terms {
		a.Terms = append(a.Terms, l.Val)
	}
	return a
}

func (p Pred) Params(into map[string]rx.Val) {
	for _, l := range p.Terms {
		if l.Param != "" {
			into[l.Param] = l.Val
		}
	}
}

// Elem is a body element: a predicate or an expression.
type Elem struct {
	P *Pred
	E *Node
}

// Body is a rule body / check query.
type Body []Elem

func (b Body) Tokens() []string {
	var t []string
	for i, e := range b {
		if i > 0 {
			t = append(t, ",")
		}
		if e.P != nil {
			t = append(t, e.P.Tokens()...)
		} else {
			t = append(t, e.E.Tokens()...)
		}
	}
	return t
}

func (b Body) Denote(head refdl.Atom) refdl.Rule {
	r := refdl.Rule{Head: head}
	for _, e := range b {
		if e.P != nil {
			r.Body = append(r.Body, e.P.Atom())
		} else {
			r.Exprs = append(r.Exprs, e.E.Post())
		}
	}
	return r
}

func (b Body) Params(into map[string]rx.Val) {
	for _, e := range b {
		if e.P != nil {
			e.P.Params(into)
		} else {
			e.E.Params(into)
		}
	}
}

// RuleToks renders head <- body.
func RuleToks(head Pred, b Body) []string {
	return append(append(head.Tokens(), "<-"), b.Tokens()...)
}

// QueriesToks renders kw q1 or q2 …
func QueriesToks(kw string, qs []Body) []string {
	t := []string{kw}
	for i, q := range qs {
		if i > 0 {
			t = append(t, "or")
		}
		t = append(t, q.Tokens()...)
	}
	return t
}

func QueryHead() refdl.Atom { return refdl.A("query") }

func Describe(toks []string) string { return fmt.Sprintf("%q", strings.Join(toks, " ")) }
