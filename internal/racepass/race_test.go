// Package racepass is the auxiliary, free-running pass of property C19: the
// operation bodies of internal/c19ops run in real goroutines (start barrier,
// no other happens-before edge between them) under the Go race detector,
// against the UNMODIFIED library. It does not decide the property (the
// footprint and schedule passes do); a report from it is nevertheless a sound
// witness of a data race.
package racepass

import (
	"fmt"
	"os"
	"sync"
	"testing"

	"verif/internal/c19ops"
)

func TestPairs(t *testing.T) {
	// the library prints expression errors to stdout
	devnull, _ := os.OpenFile(os.DevNull, os.O_WRONLY, 0)
	os.Stdout = devnull
	for si, sh := range c19ops.Shapes {
		for i, a := range c19ops.Ops {
			for j := i; j < len(c19ops.Ops); j++ {
				b := c19ops.Ops[j]
				t.Run(fmt.Sprintf("shape%d/%s__%s", si, a.Name, b.Name), func(t *testing.T) {
					shared, err := c19ops.MakeShared(sh)
					if err != nil {
						t.Fatalf("setup: %v", err)
					}
					alone, err := c19ops.MakeShared(sh)
					if err != nil {
						t.Fatalf("setup: %v", err)
					}
					wantA, wantB := a.Run(alone, 1), b.Run(alone, 2)
					var gotA, gotB string
					start := make(chan struct{})
					var wg sync.WaitGroup
					wg.Add(2)
					go func() { defer wg.Done(); <-start; gotA = a.Run(shared, 1) }()
					go func() { defer wg.Done(); <-start; gotB = b.Run(shared, 2) }()
					close(start)
					wg.Wait()
					if gotA != wantA {
						t.Errorf("RESULT-DIFFERS %s: concurrent %q alone %q", a.Name, gotA, wantA)
					}
					if gotB != wantB {
						t.Errorf("RESULT-DIFFERS %s: concurrent %q alone %q", b.Name, gotB, wantB)
					}
				})
			}
		}
	}
}
