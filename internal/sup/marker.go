package sup

import (
	"encoding/binary"
	"os"
	"syscall"
)

// markerFile is a small shared-memory file: one 1 KiB slot per worker
// goroutine holding "the case I am about to run". It survives the death of
// the process, which is all that is asked of it.
const (
	slotSize = 1024
	maxSlots = 256
)

type markerFile struct {
	mem []byte
}

func openMarker(path string, create bool) *markerFile {
	flags := os.O_RDWR
	if create {
		flags |= os.O_CREATE | os.O_TRUNC
	}
	f, err := os.OpenFile(path, flags, 0o644)
	if err != nil {
		return nil
	}
	defer f.Close()
	if create {
		if err := f.Truncate(slotSize * maxSlots); err != nil {
			return nil
		}
	}
	mem, err := syscall.Mmap(int(f.Fd()), 0, slotSize*maxSlots, syscall.PROT_READ|syscall.PROT_WRITE, syscall.MAP_SHARED)
	if err != nil {
		return nil
	}
	return &markerFile{mem: mem}
}

// slot layout: [0]=state (0 empty,1 set) [1:9]=idx [9:11]=len(space) [11:13]=len(desc) then space, desc
func (m *markerFile) set(slot int, space string, idx int64, desc string) {
	if slot >= maxSlots {
		return
	}
	b := m.mem[slot*slotSize : (slot+1)*slotSize]
	b[0] = 0
	binary.LittleEndian.PutUint64(b[1:9], uint64(idx))
	if len(space) > 64 {
		space = space[:64]
	}
	if len(desc) > slotSize-13-64 {
		desc = desc[:slotSize-13-64]
	}
	binary.LittleEndian.PutUint16(b[9:11], uint16(len(space)))
	binary.LittleEndian.PutUint16(b[11:13], uint16(len(desc)))
	copy(b[13:], space)
	copy(b[13+len(space):], desc)
	b[0] = 1
}

// clear empties a slot: its worker has finished, the case it ran last cannot be what kills the process.
func (m *markerFile) clear(slot int) {
	if m != nil && slot < maxSlots {
		m.mem[slot*slotSize] = 0
	}
}

type mark struct {
	Space string
	Idx   int64
	Desc  string
}

func readMarks(path string) []mark {
	data, err := os.ReadFile(path)
	if err != nil {
		return nil
	}
	var out []mark
	for s := 0; s+1 <= len(data)/slotSize; s++ {
		b := data[s*slotSize : (s+1)*slotSize]
		if b[0] != 1 {
			continue
		}
		ls := int(binary.LittleEndian.Uint16(b[9:11]))
		ld := int(binary.LittleEndian.Uint16(b[11:13]))
		if 13+ls+ld > slotSize {
			continue
		}
		out = append(out, mark{Space: string(b[13 : 13+ls]), Idx: int64(binary.LittleEndian.Uint64(b[1:9])), Desc: string(b[13+ls : 13+ls+ld])})
	}
	return out
}
