package sup

import (
	"encoding/json"
	"fmt"
	"os"
	"os/exec"
	"path/filepath"
	"sort"
	"strconv"
	"strings"
	"time"
)

// KnownFile is the committed list of known findings and fixed defects.
type KnownFile struct {
	Findings []KnownFinding `json:"findings"`
	Fixed    []string       `json:"fixed"`
}

type KnownFinding struct {
	Property string `json:"property"`
	// Signature is matched exactly against Violation.Sig.
	Signature string `json:"signature"`
	What      string `json:"what"`
}

func loadKnown() *KnownFile {
	k := &KnownFile{}
	b, err := os.ReadFile(filepath.Join(Root, "known_findings.json"))
	if err != nil {
		return k
	}
	if err := json.Unmarshal(b, k); err != nil {
		fmt.Fprintln(os.Stderr, "known_findings.json unreadable:", err)
		os.Exit(3)
	}
	return k
}

func (k *KnownFile) match(v *Violation) *KnownFinding {
	for i := range k.Findings {
		f := &k.Findings[i]
		if f.Property == v.Property && f.Signature == v.Sig {
			return f
		}
	}
	return nil
}

type childRun struct {
	shard   int
	cmd     *exec.Cmd
	out     string
	mark    string
	errPath string
	skip    []string
	tries   int
}

func startChild(self string, chk *Check, tier string, seed int64, shard, shards int, skip []string, budget time.Duration) (*childRun, error) {
	wd := workDir()
	cr := &childRun{shard: shard, skip: skip}
	cr.out = filepath.Join(wd, fmt.Sprintf("%s.%d.json", chk.ID, shard))
	cr.mark = filepath.Join(wd, fmt.Sprintf("%s.%d.mark", chk.ID, shard))
	cr.errPath = filepath.Join(wd, fmt.Sprintf("%s.%d.stderr", chk.ID, shard))
	os.Remove(cr.out)
	args := []string{"child", chk.ID, "--tier", tier, "--seed", strconv.FormatInt(seed, 10), "--shard", strconv.Itoa(shard), "--shards", strconv.Itoa(shards), "--out", cr.out, "--mark", cr.mark, "--budget", budget.String()}
	if len(skip) > 0 {
		sf := filepath.Join(wd, fmt.Sprintf("%s.%d.skip", chk.ID, shard))
		b, _ := json.Marshal(skip)
		os.WriteFile(sf, b, 0o644)
		args = append(args, "--skipfile", sf)
	}
	cmd := exec.Command(self, args...)
	cmd.Stdout = nil // /dev/null: the library prints to stdout
	ef, err := os.Create(cr.errPath)
	if err != nil {
		return nil, err
	}
	cmd.Stderr = ef
	cmd.Env = append(os.Environ(), "GOTRACEBACK=all")
	if err := cmd.Start(); err != nil {
		return nil, err
	}
	ef.Close()
	cr.cmd = cmd
	return cr, nil
}

func tailFile(path string, n int) string {
	b, _ := os.ReadFile(path)
	s := string(b)
	if len(s) > n {
		// keep the head: a Go crash prints the panic first
		s = s[:n]
	}
	return s
}

// crashSig derives a signature from a crash dump on stderr.
func crashSig(stderr string) string {
	// goroutine that panicked comes first; find the first library frame
	return "crash:" + PanicSig(stderr)
}

// replayInFresh runs `self replay <file>` and reports whether the violation reproduced.
func replayInFresh(self, file string) (reproduced bool, crashed bool) {
	cmd := exec.Command(self, "replay", file, "--quiet")
	cmd.Stdout = nil
	cmd.Stderr = nil
	err := cmd.Run()
	if err == nil {
		return false, false
	}
	if ee, ok := err.(*exec.ExitError); ok {
		if ee.ExitCode() == 1 {
			return true, false
		}
		if ee.ExitCode() == 3 {
			return false, false
		}
		return true, true // died: that is the violation for crash cases
	}
	return false, false
}

func writeReplay(v *Violation, n int) string {
	dir := filepath.Join(Root, "replays")
	os.MkdirAll(dir, 0o755)
	h := uint32(2166136261)
	for _, c := range []byte(v.Sig + string(v.Case) + v.Space) {
		h = (h ^ uint32(c)) * 16777619
	}
	p := filepath.Join(dir, fmt.Sprintf("%s-%08x.json", v.Property, h))
	b, _ := json.MarshalIndent(v, "", " ")
	os.WriteFile(p, b, 0o644)
	return p
}

// Supervise is the parent side of a check run. It returns the process exit code.
func Supervise(self string, chk *Check, tier string, seed int64) int {
	start := time.Now()
	known := loadKnown()
	procs := 1
	if chk.Procs != nil {
		procs = chk.Procs(tier)
	}
	budget := 100 * time.Second
	if tier == "thorough" {
		budget = 40 * time.Minute
	}
	if s := os.Getenv("VERIF_BUDGET"); s != "" {
		if d, err := time.ParseDuration(s); err == nil {
			budget = d
		}
	}
	var results []*Result
	var crashViol []Violation
	sigDeaths := map[string]int{}
	gaveUp := false
	runs := make([]*childRun, procs)
	for k := 0; k < procs; k++ {
		cr, err := startChild(self, chk, tier, seed, k, procs, nil, budget)
		if err != nil {
			fmt.Fprintln(os.Stderr, "cannot start child:", err)
			return 3
		}
		runs[k] = cr
	}
	for k := 0; k < procs; k++ {
		cr := runs[k]
		for {
			err := cr.cmd.Wait()
			if err == nil {
				b, rerr := os.ReadFile(cr.out)
				r := &Result{}
				if rerr != nil || json.Unmarshal(b, r) != nil {
					fmt.Fprintln(os.Stderr, "child result unreadable", cr.out)
					return 3
				}
				results = append(results, r)
				break
			}
			// the child died
			stderr := tailFile(cr.errPath, 6000)
			marks := readMarks(cr.mark)
			if ee, ok := err.(*exec.ExitError); ok && (ee.ExitCode() == 3 || ee.ExitCode() == 4) {
				fmt.Fprintf(os.Stderr, "HARNESS-ERROR in child %d:\n%s\n", cr.shard, stderr)
				return 3
			}
			if strings.Contains(stderr, "UNSUPPORTED") {
				fmt.Fprintln(os.Stderr, stderr)
				return 2
			}
			if len(marks) == 0 {
				fmt.Fprintf(os.Stderr, "HARNESS-ERROR: child %d died before any case was marked:\n%s\n", cr.shard, stderr)
				return 3
			}
			// which marked case kills a fresh process?
			found := false
			for _, m := range marks {
				var cs json.RawMessage
				if m.Desc != "" {
					cs = json.RawMessage(m.Desc)
				} else {
					cs, _ = json.Marshal(map[string]any{"idx": m.Idx})
				}
				v := Violation{Property: chk.ID, Sig: crashSig(stderr), Space: m.Space, Case: cs, Human: fmt.Sprintf("%s case %s", m.Space, string(cs)), Observed: "process terminated:\n" + stderr, Allowed: "every call returns", Crash: true, Tier: tier}
				file := writeReplay(&v, 0)
				rep, crashed := replayInFresh(self, file)
				if rep && crashed {
					found = true
					crashViol = append(crashViol, v)
					key := fmt.Sprintf("%s#%d", m.Space, m.Idx)
					if m.Desc != "" {
						key = m.Space + "#" + m.Desc
					}
					cr.skip = append(cr.skip, key)
				} else {
					os.Remove(file)
				}
			}
			if !found && chk.SingleThread && len(marks) == 1 && marks[0].Desc == "" {
				// a single-threaded worker is deterministic: does the death come back when its whole
				// trajectory up to the marked case is run again (state carried across calls)?
				m := marks[0]
				cs, _ := json.Marshal(map[string]any{"idx": m.Idx})
				v := Violation{Property: chk.ID, Sig: crashSig(stderr), Space: m.Space, Case: cs, Human: fmt.Sprintf("%s case %d after every case worker %d of %d ran before it (the case alone does not kill a fresh process: state carried across calls)", m.Space, m.Idx, cr.shard, procs), Observed: "process terminated:\n" + stderr, Allowed: "every call returns", Crash: true, Tier: tier, ShardReplay: &ShardReplay{Shard: cr.shard, Shards: procs, Skip: cr.skip}}
				file := writeReplay(&v, 0)
				again := 0
				for i := 0; i < 2; i++ {
					if rep, crashed := replayInFresh(self, file); rep && crashed {
						again++
					}
				}
				if again == 2 {
					found = true
					crashViol = append(crashViol, v)
					cr.skip = append(cr.skip, fmt.Sprintf("%s#%d", m.Space, m.Idx))
				} else {
					os.Remove(file)
				}
			}
			if !found {
				fmt.Fprintf(os.Stderr, "HARNESS-NONDETERMINISM: child %d died but no marked case reproduces the death alone:\n%s\n", cr.shard, stderr)
				return 3
			}
			cr.tries++
			sigDeaths[crashSig(stderr)]++
			if cr.tries > 12 || sigDeaths[crashSig(stderr)] > 4 {
				// the same death has been attributed to a case several times already: the
				// violation is established, the rest of this shard is left unexplored
				fmt.Fprintf(os.Stderr, "child %d keeps dying (%s); not restarted again after %d restarts\n", cr.shard, crashSig(stderr), cr.tries)
				gaveUp = true
				break
			}
			ncr, serr := startChild(self, chk, tier, seed, cr.shard, procs, cr.skip, budget)
			if serr != nil {
				return 3
			}
			ncr.tries = cr.tries
			cr = ncr
		}
	}

	// merge
	total := &Result{Property: chk.ID, Spaces: map[string]*SpaceStats{}}
	capped := false
	ntAll := map[string]map[uint64]struct{}{}
	for _, r := range results {
		for name, ks := range r.NTKeys {
			if ntAll[name] == nil {
				ntAll[name] = map[uint64]struct{}{}
			}
			for _, k := range ks {
				ntAll[name][k] = struct{}{}
			}
		}
		capped = capped || r.Capped
		for name, st := range r.Spaces {
			t := total.Spaces[name]
			if t == nil {
				t = newStats()
				total.Spaces[name] = t
			}
			t.Evaluations += st.Evaluations
			for k, v := range st.Classes {
				t.Classes[k] += v
			}
			t.Nontrivial += st.Nontrivial // shards are disjoint by construction
			t.States += st.States
			t.Transitions += st.Transitions
			if st.MaxDepth > t.MaxDepth {
				t.MaxDepth = st.MaxDepth
			}
			if st.Bound != "" {
				t.Bound = st.Bound
			}
			if st.Size > t.Size {
				t.Size = st.Size
			}
			t.Exhaustive = t.Exhaustive && st.Exhaustive
			for k, v := range st.Extra {
				if t.Extra == nil {
					t.Extra = map[string]any{}
				}
				if f, ok := v.(float64); ok {
					o, _ := t.Extra[k].(float64)
					t.Extra[k] = o + f
				} else {
					t.Extra[k] = v
				}
			}
			for _, s := range st.Samples {
				if len(t.Samples) < 12 {
					t.Samples = append(t.Samples, s)
				}
			}
		}
		total.Violations = append(total.Violations, r.Violations...)
	}
	total.Violations = append(crashViol, total.Violations...)
	if gaveUp {
		// a shard was abandoned: nothing of this run is exhaustive
		for _, t := range total.Spaces {
			t.Exhaustive = false
		}
	}
	for name, m := range ntAll {
		if t := total.Spaces[name]; t != nil {
			t.Nontrivial = int64(len(m))
			for _, r := range results {
				t.Nontrivial += r.NTByIndex[name]
			}
		}
	}

	// one representative per signature (the first = simplest by enumeration order)
	bySig := map[string]*Violation{}
	// further candidates of a signature, one per other space: tried when the first does not reproduce
	alts := map[string][]*Violation{}
	var order []string
	counts := map[string]int{}
	for i := range total.Violations {
		v := &total.Violations[i]
		counts[v.Sig]++
		if first, ok := bySig[v.Sig]; !ok {
			bySig[v.Sig] = v
			order = append(order, v.Sig)
		} else {
			_ = first
			alts[v.Sig] = append(alts[v.Sig], v)
		}
	}
	// order the further candidates: one per space not yet represented first, then the rest; at most 8
	for sig, as := range alts {
		seen := map[string]bool{bySig[sig].Space: true}
		var front, back []*Violation
		for _, a := range as {
			if !seen[a.Space] {
				seen[a.Space] = true
				front = append(front, a)
			} else {
				back = append(back, a)
			}
		}
		// spread the rest over the list (cases recorded by different workers)
		step := len(back)/6 + 1
		for i := 0; i < len(back) && len(front) < 8; i += step {
			front = append(front, back[i])
		}
		alts[sig] = front
	}
	exit := 0
	var lines []string
	nviol := 0
	flaky := 0
	unreplayed := 0
	replayStart := time.Now()
	var knownLines []string
	for _, sig := range order {
		v := bySig[sig]
		if kf := known.match(v); kf != nil {
			knownLines = append(knownLines, fmt.Sprintf("KNOWN-FINDING: property=%s %s [%s] (%d cases)", chk.ID, kf.What, sig, counts[sig]))
			continue
		}
		// Replaying is what makes a report believable, but a change that carries state from one call to
		// the next can produce hundreds of signatures whose replays need the cases that preceded them.
		// Once a violation is established, later signatures are replayed only while the replay budget
		// (20 established signatures or 3 minutes) lasts; the rest are counted, not printed.
		if nviol >= 1 && (nviol >= 20 || time.Since(replayStart) > 3*time.Minute) {
			unreplayed++
			continue
		}
		file := writeReplay(v, 0)
		if !v.Crash && !v.Sound {
			ok := 0
			for _, cand := range append([]*Violation{v}, alts[sig]...) {
				file = writeReplay(cand, 0)
				ok = 0
				for i := 0; i < 5; i++ {
					rep, _ := replayInFresh(self, file)
					if rep {
						ok++
					}
				}
				if ok == 5 {
					v = cand
					break
				}
			}
			if ok != 5 {
				file = writeReplay(v, 0)
			}
			if ok != 5 && len(v.Preceding) > 0 {
				// The case may depend on state the library carried over from earlier calls in the
				// same process: replay it after the cases its worker ran before it.
				v.NeedsPreceding = true
				file = writeReplay(v, 0)
				ok = 0
				for i := 0; i < 5; i++ {
					if rep, _ := replayInFresh(self, file); rep {
						ok++
					}
				}
				if ok == 5 {
					v.Human += fmt.Sprintf(" [reproduces only after the %d cases this worker ran before it: state carried across calls]", len(v.Preceding))
				}
			}
			if ok != 5 {
				// not believed: a violation must fail on every replay. It is reported as a harness
				// problem (exit 3) unless some other violation of this run does reproduce.
				fmt.Fprintf(os.Stderr, "HARNESS-NONDETERMINISM: %s reproduced %d/5 times (%s)\n", sig, ok, file)
				flaky++
				continue
			}
		}
		nviol++
		if nviol <= 20 {
			lines = append(lines, fmt.Sprintf("VIOLATION property=%s replay=%s", chk.ID, file))
			fmt.Fprintf(os.Stderr, "--- %s (%d cases)\n    case: %s\n    observed: %s\n    allowed: %s\n", sig, counts[sig], v.Human, firstLines(v.Observed, 12), v.Allowed)
		}
		exit = 1
	}
	if unreplayed > 0 {
		fmt.Fprintf(os.Stderr, "%d further signature(s) were not replayed (replay budget used after %d established violation(s))\n", unreplayed, nviol)
	}
	for _, l := range knownLines {
		fmt.Println(l)
	}
	for _, l := range lines {
		fmt.Println(l)
	}
	writeEvidence(chk, tier, seed, total, capped, nviol, len(knownLines), time.Since(start))
	// summary on stderr
	for _, name := range sortedKeys(total.Spaces) {
		st := total.Spaces[name]
		fmt.Fprintf(os.Stderr, "%s/%s: evaluations=%d distinct_nontrivial=%d states=%d transitions=%d exhaustive=%v classes=%v\n", chk.ID, name, st.Evaluations, st.Nontrivial, st.States, st.Transitions, st.Exhaustive, st.Classes)
	}
	fmt.Fprintf(os.Stderr, "%s %s: %d violation signature(s), %d known finding(s), %d non-reproducing report(s), %.1fs\n", chk.ID, tier, nviol, len(knownLines), flaky, time.Since(start).Seconds())
	if exit == 0 && flaky > 0 {
		return 3
	}
	return exit
}

func firstLines(s string, n int) string {
	l := strings.Split(s, "\n")
	if len(l) > n {
		l = l[:n]
	}
	return strings.Join(l, "\n              ")
}

func writeEvidence(chk *Check, tier string, seed int64, total *Result, capped bool, nviol, nknown int, wall time.Duration) {
	cov := map[string]any{}
	var evals, nt, states, trans int64
	exhaustive := !capped
	var samples []any
	classes := map[string]int64{}
	spaces := map[string]any{}
	for _, name := range sortedKeys(total.Spaces) {
		st := total.Spaces[name]
		evals += st.Evaluations
		nt += st.Nontrivial
		states += st.States
		trans += st.Transitions
		exhaustive = exhaustive && st.Exhaustive
		for k, v := range st.Classes {
			classes[name+":"+k] += v
		}
		for i, s := range st.Samples {
			if i < 4 {
				samples = append(samples, map[string]any{"space": name, "case": s})
			}
		}
		sp := map[string]any{"evaluations": st.Evaluations, "distinct_nontrivial": st.Nontrivial, "exhaustive": st.Exhaustive, "outcome_classes": st.Classes}
		if st.States > 0 {
			sp["states"] = st.States
			sp["transitions"] = st.Transitions
		}
		if st.MaxDepth > 0 {
			sp["max_depth"] = st.MaxDepth
		}
		if st.Bound != "" {
			sp["bound_completed"] = st.Bound
		}
		if st.Size > 0 {
			sp["space_size"] = st.Size
		}
		if len(st.Extra) > 0 {
			sp["extra"] = st.Extra
		}
		vac := len(st.Classes) < 2
		sp["vacuous"] = vac
		spaces[name] = sp
	}
	cov["evaluations"] = evals
	cov["distinct_nontrivial"] = nt
	cov["rule"] = chk.Rule
	if len(samples) == 0 {
		samples = []any{"(no sample recorded)"}
	}
	cov["samples"] = samples
	cov["exhaustive"] = exhaustive
	cov["capped_by_internal_deadline"] = capped
	cov["spaces"] = spaces
	cov["outcome_classes"] = classes
	cov["known_findings_reported"] = nknown
	if chk.Level == "model_checking" {
		if states == 0 {
			states = nt
		}
		if trans == 0 {
			trans = evals
		}
		cov["states"] = states
		cov["transitions"] = trans
		cov["traces_validated_against_impl"] = evals
	}
	ev := map[string]any{
		"property_id": chk.ID,
		"tier":        tier,
		"seed":        seed,
		"level":       chk.Level,
		"coverage":    cov,
		"assumptions": chk.Assume,
		"wall_s":      wall.Seconds(),
		"violations":  nviol,
		"technique":   chk.Technique,
	}
	if ev["assumptions"] == nil {
		ev["assumptions"] = []string{}
	}
	dir := filepath.Join(Root, "evidence")
	os.MkdirAll(dir, 0o755)
	b, _ := json.MarshalIndent(ev, "", " ")
	os.WriteFile(filepath.Join(dir, chk.ID+".json"), b, 0o644)
}

var _ = sort.Strings
