// Package sup is the shared supervisor of every check: a parent process that
// starts one or more child processes doing the actual exhaustive exploration,
// watches for process death (a panic on a library-owned goroutine cannot be
// recovered), re-runs every reported violation in fresh processes before
// believing it, matches it against known_findings.json, and writes the
// evidence file.
package sup

import (
	"encoding/json"
	"fmt"
	"hash/fnv"
	"os"
	"path/filepath"
	"runtime"
	"runtime/pprof"
	"sort"
	"strings"
	"sync"
	"sync/atomic"
	"time"
)

// Root is the /verif directory (the working directory of every check).
var Root = func() string {
	if r := os.Getenv("VERIF_ROOT"); r != "" {
		return r
	}
	return "/verif"
}()

// Violation is one property violation found on the real code.
type Violation struct {
	Property string          `json:"property"`
	Sig      string          `json:"signature"` // stable identity used by known_findings.json
	Space    string          `json:"space"`     // which enumeration produced it
	Case     json.RawMessage `json:"case"`      // replayable descriptor (index, history, schedule…)
	Human    string          `json:"human"`     // the case written out
	Observed string          `json:"observed"`
	Allowed  string          `json:"allowed"`
	Crash    bool            `json:"crash,omitempty"` // the process died
	Sound    bool            `json:"sound_detector,omitempty"`
	// Preceding is the list of case indexes the same worker ran in this space
	// just before this case (most recent last). A violation that does not
	// reproduce alone is replayed after them: the library may carry state from
	// one call to the next (a cache, a pool, a hoisted buffer).
	Tier           string  `json:"tier,omitempty"` // the tier whose enumeration the case index refers to
	// ShardReplay: the process died in this case but the case alone does not kill a fresh
	// process; the replay re-runs the worker's whole deterministic trajectory up to the case.
	ShardReplay *ShardReplay `json:"shard_replay,omitempty"`
	Preceding      []int64 `json:"preceding_cases,omitempty"`
	NeedsPreceding bool    `json:"needs_preceding_cases,omitempty"`
}

// ShardReplay identifies the trajectory of one single-threaded worker process.
type ShardReplay struct {
	Shard  int      `json:"shard"`
	Shards int      `json:"shards"`
	Skip   []string `json:"skip,omitempty"`
}

// Space is one enumerated space of a check.
type Space struct {
	Name string
	// Size returns the number of cases for the tier (indexable spaces).
	Size func(c *Ctx) int64
	// Run executes case i and records into w.
	Run func(i int64, w *W)
	// RunAll is used instead of Size/Run by spaces that do their own search
	// (BFS, schedule DFS). It must call w.Mark before each transition.
	RunAll func(c *Ctx)
	// ReplayCase re-executes one case of a RunAll space from its descriptor.
	ReplayCase func(raw json.RawMessage, w *W)
	// Stride lets a quick tier subsample deterministically?  No: never used.
}

// Check is what a property registers.
type Check struct {
	ID        string
	Level     string // evidence level
	Technique string
	Rule      string // how cases are generated and what is non-trivial
	Assume    []string
	// Procs is the number of child processes (default 1; each child uses
	// goroutine parallelism unless SingleThread is set).
	Procs        func(tier string) int
	SingleThread bool
	Spaces       func(c *Ctx) []*Space
	// Overlay: the child binary must be the overlay (Engine A) build.
	Overlay bool
}

// Ctx is the per-process context of a running check.
type Ctx struct {
	Check   *Check
	Tier    string
	Seed    int64
	Shard   int
	Shards  int
	Start   time.Time
	Budget  time.Duration // internal deadline; exceeding it ends with exhaustive:false
	marker  *markerFile
	mu      sync.Mutex
	res     *Result
	workers []*W
	skip    map[string]bool // signatures / case keys to skip (known crashing cases)
	capped  atomic.Bool
	onlyIdx int64
	// stopSpace/stopIdx: a shard replay ends after this case
	stopSpace string
	stopIdx   int64
}

func (c *Ctx) Quick() bool    { return c.Tier != "thorough" }
func (c *Ctx) Thorough() bool { return c.Tier == "thorough" }

// Pick returns q in the quick tier and t in the thorough tier.
func Pick[T any](c *Ctx, q, t T) T {
	if c.Thorough() {
		return t
	}
	return q
}

// Expired reports whether the internal deadline has passed (and remembers it).
func (c *Ctx) Expired() bool {
	if c.Budget > 0 && time.Since(c.Start) > c.Budget {
		c.capped.Store(true)
		return true
	}
	return false
}

// SpaceStats is the per-space part of a result.
type SpaceStats struct {
	Evaluations int64            `json:"evaluations"`
	Classes     map[string]int64 `json:"outcome_classes"`
	Nontrivial  int64            `json:"distinct_nontrivial"`
	States      int64            `json:"states,omitempty"`
	Transitions int64            `json:"transitions,omitempty"`
	MaxDepth    int64            `json:"max_depth,omitempty"`
	Bound       string           `json:"bound,omitempty"`
	Size        int64            `json:"size,omitempty"`
	Exhaustive  bool             `json:"exhaustive"`
	Samples     []any            `json:"samples,omitempty"`
	Extra       map[string]any   `json:"extra,omitempty"`
}

// Result is what a child writes when it finishes.
type Result struct {
	Property   string                 `json:"property"`
	Shard      int                    `json:"shard"`
	Spaces     map[string]*SpaceStats `json:"spaces"`
	Violations []Violation            `json:"violations"`
	Known      []string               `json:"known"`
	Capped     bool                   `json:"capped"`
	WallS      float64                `json:"wall_s"`
	NTKeys     map[string][]uint64    `json:"nt_keys,omitempty"`
	ntKeys     map[string]map[uint64]struct{}
	ntN        map[string]int64
	NTByIndex  map[string]int64 `json:"nt_by_index,omitempty"`
}

// W is a worker handle (one per goroutine) used by Space.Run.
type W struct {
	c       *Ctx
	slot    int
	space   string
	st      *SpaceStats
	nt      map[uint64]struct{}
	viol    []Violation
	samples map[string]int
	cur     int64
	curCase json.RawMessage
	sigN    map[string]int
	ntN     int64
	hist    []int64 // indexes run by this worker in this space, most recent last (bounded)
	// Local is per-worker scratch storage for the check (caches).
	Local map[string]any
}

func (w *W) Ctx() *Ctx { return w.c }

// Mark records the case about to run so that a process death can be attributed.
func (w *W) Mark(idx int64, desc string) {
	w.cur = idx
	if w.c.marker != nil {
		w.c.marker.set(w.slot, w.space, idx, desc)
	}
}

// Class counts one evaluation with the given outcome class.
func (w *W) Class(class string) {
	w.st.Evaluations++
	w.st.Classes[class]++
}

// Count adds to a named extra counter.
func (w *W) Count(name string, n int64) {
	if w.st.Extra == nil {
		w.st.Extra = map[string]any{}
	}
	v, _ := w.st.Extra[name].(int64)
	w.st.Extra[name] = v + n
}

// Nontrivial registers a distinct non-trivial case by its canonical key.
func (w *W) Nontrivial(key string) {
	h := fnv.New64a()
	h.Write([]byte(key))
	w.nt[h.Sum64()] = struct{}{}
}

// NontrivialByIndex counts a non-trivial case of a space whose cases are
// pairwise distinct by construction (one per index), without hashing it.
func (w *W) NontrivialByIndex() { w.ntN++ }

// Sample keeps up to 3 written-out cases per class.
func (w *W) Sample(class string, v any) {
	if w.samples[class] >= 2 || len(w.st.Samples) >= 12 {
		return
	}
	w.samples[class]++
	w.st.Samples = append(w.st.Samples, v)
}

// WantSample reports whether Sample would keep a value for class (to avoid
// rendering a case that is then dropped).
func (w *W) WantSample(class string) bool {
	return w.samples[class] < 2 && len(w.st.Samples) < 12
}

// Violate records a violation for the case being run.
func (w *W) Violate(sig, human, observed, allowed string) {
	cs := w.curCase
	if cs == nil {
		cs, _ = json.Marshal(map[string]any{"idx": w.cur})
	}
	if w.sigN == nil {
		w.sigN = map[string]int{}
	}
	w.sigN[sig]++
	if w.sigN[sig] > 2 || len(w.viol) >= 400 {
		return
	}
	v := Violation{Property: w.c.Check.ID, Sig: sig, Space: w.space, Case: cs, Human: human, Observed: observed, Allowed: allowed, Tier: w.c.Tier}
	if w.curCase == nil && len(w.hist) > 1 {
		v.Preceding = append([]int64{}, w.hist[:len(w.hist)-1]...)
	}
	w.viol = append(w.viol, v)
}

// ViolateSound records a violation witnessed by a sound detector whose reports
// are not reproducible at will (the race detector): it is believed as is and
// not gated on five identical replays.
func (w *W) ViolateSound(sig, human, observed, allowed string) {
	n := len(w.viol)
	w.Violate(sig, human, observed, allowed)
	if len(w.viol) > n {
		w.viol[len(w.viol)-1].Sound = true
	}
}

// SetCase sets a non-index case descriptor for the next Violate calls.
func (w *W) SetCase(v any) {
	b, _ := json.Marshal(v)
	w.curCase = b
}

// Scratch returns a worker handle whose records are thrown away: for the part of a
// case that only prepares state (its violations belong to other cases).
func (w *W) Scratch() *W {
	if s, ok := w.Local["__scratch"].(*W); ok {
		s.viol, s.sigN = nil, nil
		return s
	}
	s := &W{c: w.c, slot: w.slot, space: w.space, st: newStats(), nt: map[uint64]struct{}{}, samples: map[string]int{}, Local: map[string]any{}}
	w.Local["__scratch"] = s
	return s
}

// AnnotateLast appends a note to the written-out case of the last recorded violation.
func (w *W) AnnotateLast(note string) {
	if n := len(w.viol); n > 0 {
		w.viol[n-1].Human += note
	}
}

// Violations returns what this worker has recorded (used by replay).
func (w *W) Violations() []Violation { return w.viol }

// Stats gives access to the space statistics (for RunAll spaces).
func (w *W) Stats() *SpaceStats { return w.st }

func newStats() *SpaceStats {
	return &SpaceStats{Classes: map[string]int64{}, Exhaustive: true}
}

// NewW creates a worker for space name.
func (c *Ctx) NewW(space string) *W {
	c.mu.Lock()
	defer c.mu.Unlock()
	w := &W{c: c, slot: len(c.workers), space: space, st: newStats(), nt: map[uint64]struct{}{}, samples: map[string]int{}, Local: map[string]any{}}
	c.workers = append(c.workers, w)
	return w
}

// merge folds a finished worker into the result.
func (c *Ctx) merge(w *W) {
	c.mu.Lock()
	defer c.mu.Unlock()
	c.marker.clear(w.slot)
	st := c.res.Spaces[w.space]
	if st == nil {
		st = newStats()
		c.res.Spaces[w.space] = st
		c.res.ntKeys[w.space] = map[uint64]struct{}{}
	}
	st.Evaluations += w.st.Evaluations
	for k, v := range w.st.Classes {
		st.Classes[k] += v
	}
	st.States += w.st.States
	st.Transitions += w.st.Transitions
	if w.st.MaxDepth > st.MaxDepth {
		st.MaxDepth = w.st.MaxDepth
	}
	if w.st.Bound != "" {
		st.Bound = w.st.Bound
	}
	if w.st.Size > 0 {
		st.Size = w.st.Size
	}
	if !w.st.Exhaustive {
		st.Exhaustive = false
	}
	for k, v := range w.st.Extra {
		if st.Extra == nil {
			st.Extra = map[string]any{}
		}
		if n, ok := v.(int64); ok {
			o, _ := st.Extra[k].(int64)
			st.Extra[k] = o + n
		} else {
			st.Extra[k] = v
		}
	}
	for _, s := range w.st.Samples {
		if len(st.Samples) < 12 {
			st.Samples = append(st.Samples, s)
		}
	}
	for k := range w.nt {
		c.res.ntKeys[w.space][k] = struct{}{}
	}
	c.res.ntN[w.space] += w.ntN
	st.Nontrivial = int64(len(c.res.ntKeys[w.space])) + c.res.ntN[w.space]
	if len(c.res.Violations) < 2000 {
		c.res.Violations = append(c.res.Violations, w.viol...)
	}
}

// Merge is the exported form for RunAll spaces that own their worker.
func (c *Ctx) Merge(w *W) { c.merge(w) }

// Threads is the number of goroutines a child uses.
func (c *Ctx) Threads() int {
	if c.Check.SingleThread {
		return 1
	}
	n := runtime.NumCPU()
	if p := c.Shards; p > 1 {
		n = n / p
		if n < 1 {
			n = 1
		}
	}
	return n
}

// histMax bounds the per-worker list of preceding cases kept for replay.
const histMax = 512

// runIndexed runs an indexable space over this shard's part of [0,size).
func (c *Ctx) runIndexed(sp *Space) {
	size := sp.Size(c)
	nthreads := c.Threads()
	var next int64 = int64(c.Shard)
	const chunk = 64
	var wg sync.WaitGroup
	// cases are dealt in chunks of 64 indexes round-robin over shards, then
	// dynamically over goroutines.
	var chunkNo int64 = -1
	nchunks := (size + chunk - 1) / chunk
	_ = next
	for t := 0; t < nthreads; t++ {
		wg.Add(1)
		w := c.NewW(sp.Name)
		w.st.Size = 0
		go func() {
			defer wg.Done()
			defer c.merge(w)
			for {
				k := atomic.AddInt64(&chunkNo, 1)
				if k >= nchunks {
					return
				}
				if int(k%int64(c.Shards)) != c.Shard {
					continue
				}
				if c.Expired() {
					w.st.Exhaustive = false
					return
				}
				lo, hi := k*chunk, (k+1)*chunk
				if hi > size {
					hi = size
				}
				for i := lo; i < hi; i++ {
					if c.skip != nil && c.skip[fmt.Sprintf("%s#%d", sp.Name, i)] {
						continue
					}
					w.cur = i
					w.curCase = nil
					if len(w.hist) >= histMax {
						w.hist = append(w.hist[:0], w.hist[len(w.hist)-histMax/2:]...)
					}
					w.hist = append(w.hist, i)
					if c.marker != nil {
						c.marker.set(w.slot, sp.Name, i, "")
					}
					runGuarded(sp, i, w)
					if c.stopSpace == sp.Name && i == c.stopIdx {
						return
					}
				}
			}
		}()
	}
	wg.Wait()
	c.mu.Lock()
	if st := c.res.Spaces[sp.Name]; st != nil && c.Shard == 0 {
		st.Size = size
	}
	c.mu.Unlock()
}

// PanicSig extracts a stable signature (top library frame) from a stack.
func PanicSig(stack string) string {
	lines := strings.Split(stack, "\n")
	for i := 0; i+1 < len(lines); i++ {
		l := lines[i]
		if strings.HasPrefix(l, "github.com/biscuit-auth/biscuit-go/v2") {
			fn := l
			if j := strings.LastIndex(fn, "("); j > 0 {
				fn = fn[:j]
			}
			fn = strings.TrimPrefix(fn, "github.com/biscuit-auth/biscuit-go/v2")
			return strings.TrimLeft(fn, "/.")
		}
	}
	return "unknown-frame"
}

func runGuarded(sp *Space, i int64, w *W) {
	defer func() {
		if r := recover(); r != nil {
			buf := make([]byte, 16384)
			buf = buf[:runtime.Stack(buf, false)]
			w.Class("panic")
			w.Violate("panic:"+PanicSig(string(buf)), fmt.Sprintf("%s case %d", sp.Name, i), fmt.Sprintf("panic: %v\n%s", r, trimStack(string(buf))), "no panic")
		}
	}()
	sp.Run(i, w)
}

func trimStack(s string) string {
	lines := strings.Split(s, "\n")
	if len(lines) > 24 {
		lines = lines[:24]
	}
	return strings.Join(lines, "\n")
}

// Guard runs f and converts a panic into a violation on w (for RunAll spaces).
func Guard(w *W, human string, f func()) (panicked bool) {
	defer func() {
		if r := recover(); r != nil {
			buf := make([]byte, 16384)
			buf = buf[:runtime.Stack(buf, false)]
			w.Violate("panic:"+PanicSig(string(buf)), human, fmt.Sprintf("panic: %v\n%s", r, trimStack(string(buf))), "no panic")
			panicked = true
		}
	}()
	f()
	return false
}

// Catch runs f and returns the panic value and stack, if any.
func Catch(f func()) (r any, stack string) {
	defer func() {
		if r = recover(); r != nil {
			buf := make([]byte, 16384)
			buf = buf[:runtime.Stack(buf, false)]
			stack = string(buf)
		}
	}()
	f()
	return nil, ""
}

// RunChild executes the check inside a child process and writes its result.
func RunChild(chk *Check, tier string, seed int64, shard, shards int, outPath, markPath string, skip []string, budget time.Duration) {
	c := &Ctx{Check: chk, Tier: tier, Seed: seed, Shard: shard, Shards: shards, Start: time.Now(), Budget: budget}
	c.res = &Result{Property: chk.ID, Shard: shard, Spaces: map[string]*SpaceStats{}, ntKeys: map[string]map[uint64]struct{}{}, ntN: map[string]int64{}}
	if markPath != "" {
		c.marker = openMarker(markPath, true)
	}
	if len(skip) > 0 {
		c.skip = map[string]bool{}
		for _, s := range skip {
			c.skip[s] = true
		}
	}
	if chk.SingleThread {
		runtime.GOMAXPROCS(1)
	}
	if pf := os.Getenv("VERIF_CPUPROFILE"); pf != "" && shard == 0 {
		f, _ := os.Create(pf)
		pprof.StartCPUProfile(f)
		defer pprof.StopCPUProfile()
	}
	for _, sp := range chk.Spaces(c) {
		if sp.RunAll != nil {
			sp.RunAll(c)
		} else {
			c.runIndexed(sp)
		}
	}
	c.res.Capped = c.capped.Load()
	c.res.NTByIndex = c.res.ntN
	if shards > 1 {
		c.res.NTKeys = map[string][]uint64{}
		for name, m := range c.res.ntKeys {
			for k := range m {
				c.res.NTKeys[name] = append(c.res.NTKeys[name], k)
			}
		}
	}
	c.res.WallS = time.Since(c.Start).Seconds()
	b, _ := json.MarshalIndent(c.res, "", " ")
	if err := os.WriteFile(outPath, b, 0o644); err != nil {
		fmt.Fprintln(os.Stderr, "cannot write result:", err)
		os.Exit(4)
	}
}

// Skipped reports whether a RunAll space should skip a case key.
func (c *Ctx) Skipped(key string) bool { return c.skip != nil && c.skip[key] }

// ReplayOne re-executes one recorded case and returns the violations seen.
func ReplayOne(chk *Check, tier string, v *Violation) []Violation {
	c := &Ctx{Check: chk, Tier: tier, Shards: 1, Start: time.Now()}
	c.res = &Result{Property: chk.ID, Spaces: map[string]*SpaceStats{}, ntKeys: map[string]map[uint64]struct{}{}, ntN: map[string]int64{}}
	if chk.SingleThread {
		runtime.GOMAXPROCS(1)
	}
	if v.ShardReplay != nil {
		var d struct {
			Idx int64 `json:"idx"`
		}
		if err := json.Unmarshal(v.Case, &d); err != nil {
			os.Exit(3)
		}
		c.Shard, c.Shards = v.ShardReplay.Shard, v.ShardReplay.Shards
		if len(v.ShardReplay.Skip) > 0 {
			c.skip = map[string]bool{}
			for _, k := range v.ShardReplay.Skip {
				c.skip[k] = true
			}
		}
		c.stopSpace, c.stopIdx = v.Space, d.Idx
		for _, sp := range chk.Spaces(c) {
			if sp.RunAll != nil {
				sp.RunAll(c)
			} else {
				c.runIndexed(sp)
			}
			if sp.Name == v.Space {
				break
			}
		}
		return nil // still alive: the death did not reproduce
	}
	for _, sp := range chk.Spaces(c) {
		if sp.Name != v.Space {
			continue
		}
		w := c.NewW(sp.Name)
		if sp.ReplayCase != nil {
			w.curCase = v.Case
			sp.ReplayCase(v.Case, w)
			return w.viol
		}
		var d struct {
			Idx int64 `json:"idx"`
		}
		if err := json.Unmarshal(v.Case, &d); err != nil {
			fmt.Fprintln(os.Stderr, "bad case descriptor:", err)
			os.Exit(3)
		}
		if v.NeedsPreceding {
			for _, i := range v.Preceding {
				w.cur = i
				runGuarded(sp, i, w)
			}
			w.viol, w.sigN = nil, nil
		}
		w.cur = d.Idx
		runGuarded(sp, d.Idx, w)
		return w.viol
	}
	fmt.Fprintln(os.Stderr, "unknown space", v.Space)
	os.Exit(3)
	return nil
}

func sortedKeys[V any](m map[string]V) []string {
	ks := make([]string, 0, len(m))
	for k := range m {
		ks = append(ks, k)
	}
	sort.Strings(ks)
	return ks
}

func workDir() string {
	d := filepath.Join(Root, "work")
	os.MkdirAll(d, 0o755)
	return d
}
