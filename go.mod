module verif

go 1.19

require (
	github.com/alecthomas/participle/v2 v2.1.1
	github.com/biscuit-auth/biscuit-go/v2 v2.0.0
)

require google.golang.org/protobuf v1.34.2 // indirect

replace github.com/biscuit-auth/biscuit-go/v2 => /repo
