module verif

go 1.19

require github.com/biscuit-auth/biscuit-go/v2 v2.0.0

replace github.com/biscuit-auth/biscuit-go/v2 => /repo
