// Command check runs one property check, a child of one, or a replay.
package main

import (
	"encoding/json"
	"flag"
	"fmt"
	"os"
	"sort"
	"strconv"
	"time"

	"verif/internal/props"
	"verif/internal/sup"
)

func usage() {
	fmt.Fprintln(os.Stderr, "usage: check run <Cxx> [--tier quick|thorough] | check replay <file> | check list")
	os.Exit(3)
}

func main() {
	if len(os.Args) < 2 {
		usage()
	}
	self, err := os.Executable()
	if err != nil {
		fmt.Fprintln(os.Stderr, err)
		os.Exit(3)
	}
	switch os.Args[1] {
	case "list":
		ids := []string{}
		for id := range props.All {
			ids = append(ids, id)
		}
		sort.Strings(ids)
		for _, id := range ids {
			fmt.Println(id)
		}
	case "run":
		if len(os.Args) < 3 {
			usage()
		}
		chk := props.All[os.Args[2]]
		if chk == nil {
			fmt.Fprintln(os.Stderr, "unknown property", os.Args[2])
			os.Exit(3)
		}
		fs := flag.NewFlagSet("run", flag.ExitOnError)
		tier := fs.String("tier", envOr("VERIF_TIER", "quick"), "quick|thorough")
		fs.Parse(os.Args[3:])
		seed, _ := strconv.ParseInt(envOr("VERIF_SEED", "0"), 10, 64)
		os.Exit(sup.Supervise(self, chk, *tier, seed))
	case "child":
		chk := props.All[os.Args[2]]
		if chk == nil {
			os.Exit(3)
		}
		fs := flag.NewFlagSet("child", flag.ExitOnError)
		tier := fs.String("tier", "quick", "")
		seed := fs.Int64("seed", 0, "")
		shard := fs.Int("shard", 0, "")
		shards := fs.Int("shards", 1, "")
		out := fs.String("out", "", "")
		mark := fs.String("mark", "", "")
		skipfile := fs.String("skipfile", "", "")
		budget := fs.Duration("budget", 0, "")
		fs.Parse(os.Args[3:])
		var skip []string
		if *skipfile != "" {
			b, _ := os.ReadFile(*skipfile)
			json.Unmarshal(b, &skip)
		}
		sup.RunChild(chk, *tier, *seed, *shard, *shards, *out, *mark, skip, *budget)
	case "replay":
		if len(os.Args) < 3 {
			usage()
		}
		quiet := len(os.Args) > 3 && os.Args[3] == "--quiet"
		b, err := os.ReadFile(os.Args[2])
		if err != nil {
			fmt.Fprintln(os.Stderr, err)
			os.Exit(3)
		}
		var v sup.Violation
		if err := json.Unmarshal(b, &v); err != nil {
			fmt.Fprintln(os.Stderr, err)
			os.Exit(3)
		}
		chk := props.All[v.Property]
		if chk == nil {
			os.Exit(3)
		}
		if quiet {
			// the library prints to stdout; keep our own channel clean
			devnull, _ := os.OpenFile(os.DevNull, os.O_WRONLY, 0)
			os.Stdout = devnull
		}
		t0 := time.Now()
		tier := v.Tier
		if tier == "" {
			tier = envOr("VERIF_TIER", "quick")
		}
		got := sup.ReplayOne(chk, tier, &v)
		same := false
		for _, g := range got {
			if g.Sig == v.Sig {
				same = true
			}
			if !quiet {
				fmt.Fprintf(os.Stderr, "replayed: %s\n  case: %s\n  observed: %s\n  allowed: %s\n", g.Sig, g.Human, g.Observed, g.Allowed)
			}
		}
		if !quiet {
			fmt.Fprintf(os.Stderr, "replay of %s: %d violation(s), same signature reproduced: %v (%.2fs)\n", os.Args[2], len(got), same, time.Since(t0).Seconds())
		}
		if same {
			if !quiet {
				fmt.Printf("VIOLATION property=%s replay=%s\n", v.Property, os.Args[2])
			}
			os.Exit(1)
		}
	default:
		usage()
	}
}

func envOr(k, d string) string {
	if v := os.Getenv(k); v != "" {
		return v
	}
	return d
}
